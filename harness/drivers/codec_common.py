"""Shared machinery of the C03 / C04 / C09 (and the configuration source of C14) checks.

* configurations(): TLC explores spec/CodecConfig.tla (the configuration space as a choice machine) and
  prints every finished configuration together with the spec's predicted outcome; this module only
  concretises those records (R2): CodecFeatures, pictures, make_sequence arguments.
* execute(job): one real run  make_sequence -> autofill_and_serialise_stream -> read back with the
  bitstream deserialiser -> validator/decoder with _output_picture_callback, projected to one trace
  record (scalars, equalities, min/max); optionally followed by runs on re-packed streams (C09).
* judge(records): spec/CodecTrace.tla evaluated by TLC on the recorded runs.

Each of c03.py / c04.py / c09.py owns its alarm: it filters the verdicts by its own clause family.
"""
import json
import random
import traceback
from io import BytesIO

from .. import common, tlc, trace

CLAMP = 1 << 30
DIMS = ["mode", "wi", "wiho", "d", "dho", "sx", "sy", "fsc", "cdf", "pcm", "size", "range", "base", "qm", "npics", "pn", "pb", "minq", "minscaler", "content", "colour"]


# ------------------------------------------------------------------------------ configurations (G)
def _cfg_text(mode, salts, maxdepth, view=True):
    return (
        "SPECIFICATION Spec\nCONSTANTS\n  Mode = \"%s\"\n  Salts = {%s}\n  MaxDepth = %d\n"
        "INVARIANT ChoicesLeadToValid\nINVARIANT FinishedValid\nINVARIANT OutcomeShape\nINVARIANT BudgetAtLeastMinimum\n"
        "%sCHECK_DEADLOCK FALSE\n" % (mode, ", ".join(str(s) for s in salts), maxdepth, "VIEW View\n" if view else "")
    )


_PRINTED = {}


def printed_json(res, tag):
    """JSON strings printed by PrintT(<<tag, ToJson(x)>>) (TLC may wrap the tuple over several lines)."""
    import re

    rx = _PRINTED.get(tag)
    if rx is None:
        rx = _PRINTED[tag] = re.compile(r'<<\s*"%s",\s*"((?:[^"\\]|\\.)*)"\s*>>' % tag)
    out = []
    for m in rx.finditer(res.out):
        out.append(json.loads(m.group(1).replace('\\"', '"').replace("\\\\", "\\")))
    return out


def check_qm_table(res):
    """The static table CodecOps!DefaultQMKeys must equal the installed vc2_data_tables table."""
    from vc2_data_tables import QUANTISATION_MATRICES

    got = printed_json(res, "QMKEYS")
    if not got:
        raise RuntimeError("CodecConfig did not print QMKEYS")
    spec_keys = set(tuple(k) for k in got[0])
    real = set((int(a), int(b), c, d) for a, b, c, d in QUANTISATION_MATRICES)
    if spec_keys != real:
        raise RuntimeError("CodecOps!DefaultQMKeys differs from vc2_data_tables.QUANTISATION_MATRICES: %s" % sorted(spec_keys ^ real)[:5])


def _finished(res):
    out = {}
    for d in printed_json(res, "CFG"):
        key = json.dumps(d["cfg"], sort_keys=True)
        out[key] = d
    return [out[k] for k in sorted(out)]


LAST_ALL = []


def configurations(ctx, name="CodecConfig", only=None):
    """Returns (list of {cfg, outcome}, info).  quick: pairwise design with one salt; thorough: two salts
    plus random valid configurations from tlc -simulate in 'free' mode (deeper transforms)."""
    import os

    cache = os.environ.get("VERIF_CODEC_CACHE")  # mutation-sanity knob only: reuse an enumerated design
    if cache and os.path.exists(cache):
        with open(cache) as f:
            cfgs = json.load(f)
        lim = int(os.environ.get("VERIF_CODEC_LIMIT") or 0)
        if only:
            cfgs = [c for c in cfgs if only(c)]
        if lim and len(cfgs) > lim:
            step = len(cfgs) / float(lim)
            cfgs = [cfgs[int(i * step)] for i in range(lim)]
        return cfgs, {"debug_cache_used": cache, "pair_coverage": pair_coverage([c["cfg"] for c in cfgs])}
    salts = ctx.pick([0], [0, 1])
    res = tlc.run("CodecConfig", _cfg_text("pairs", salts, 2), coverage=True, timeout=3000)
    check_qm_table(res)
    ctx.add_tlc(res, "%s pairs (exhaustive over all value pairs of any two dimensions)" % name, {"Mode": "pairs", "Salts": salts, "MaxDepth": 2})
    cfgs = _finished(res)
    info = {"pairs_mode_configurations": len(cfgs), "initial_states": res.coverage.get("Init", [0, 0])[0]}
    info["per_dimension_actions"] = {k: v for k, v in res.coverage.items()}
    if res.coverage.get("Finish", [0])[0] == 0:
        raise RuntimeError("CodecConfig: Finish never taken")
    if not ctx.quick:
        nsim = 1500
        sim = tlc.run("CodecConfig", _cfg_text("free", [0], 3, view=False), simulate=nsim, depth=24, seed=ctx.seed, workers=1, timeout=3000)
        extra = _finished(sim)
        info["simulated_configurations"] = len(extra)
        have = set(json.dumps(c["cfg"], sort_keys=True) for c in cfgs)
        cfgs += [c for c in extra if json.dumps(c["cfg"], sort_keys=True) not in have]
    info["pair_coverage"] = pair_coverage([c["cfg"] for c in cfgs])
    if cache:
        with open(cache, "w") as f:
            json.dump(cfgs, f)
    LAST_ALL[:] = cfgs  # the whole enumerated design (supplements of single drivers pick from it)
    if only:
        cfgs = [c for c in cfgs if only(c)]
    return cfgs, info


def pair_coverage(cfgs):
    seen = set()
    singles = set()
    for c in cfgs:
        vals = [(d, c[d]) for d in DIMS]
        for i in range(len(vals)):
            singles.add(vals[i])
            for j in range(i + 1, len(vals)):
                seen.add((vals[i], vals[j]))
    return {"distinct_value_pairs_covered": len(seen), "distinct_values_covered": len(singles), "dimensions": len(DIMS)}


# ------------------------------------------------------------------------------ concretisation
def make_features(cfg, outcome):
    from vc2_data_tables import Levels, Profiles, PictureCodingModes, WaveletFilters, ColorDifferenceSamplingFormats, BaseVideoFormats
    from vc2_data_tables import PresetColorMatrices, PresetTransferFunctions, PresetColorPrimaries
    from vc2_conformance.codec_features import CodecFeatures
    from vc2_conformance.pseudocode.video_parameters import set_source_defaults

    vp = set_source_defaults(BaseVideoFormats(cfg["base"]))
    w, h, r = outcome["w"], outcome["h"], outcome["range"]
    vp["frame_width"], vp["frame_height"] = w, h
    vp["clean_width"], vp["clean_height"], vp["left_offset"], vp["top_offset"] = w, h, 0, 0
    vp["color_diff_format_index"] = ColorDifferenceSamplingFormats(cfg["cdf"])
    vp["luma_offset"], vp["luma_excursion"] = r["lo"], r["le"]
    vp["color_diff_offset"], vp["color_diff_excursion"] = r["co"], r["ce"]
    col = cfg.get("colour", "base")
    if col == "rgb_matrix":
        vp["color_matrix_index"] = PresetColorMatrices.rgb
    elif col == "pq_transfer":
        vp["transfer_function_index"] = PresetTransferFunctions.perceptual_quantizer
    elif col == "sd625":
        vp["color_primaries_index"] = PresetColorPrimaries.sdtv_625
        vp["color_matrix_index"] = PresetColorMatrices.sdtv
        vp["transfer_function_index"] = PresetTransferFunctions.tv_gamma
    elif col == "hdtv_rgb":
        vp["color_primaries_index"] = PresetColorPrimaries.hdtv
        vp["color_matrix_index"] = PresetColorMatrices.rgb
        vp["transfer_function_index"] = PresetTransferFunctions.tv_gamma
    d, dho = cfg["d"], cfg["dho"]
    qm = None
    if cfg["qm"] != "default":
        ramp = cfg["qm"] == "ramp"
        qm = {}
        if dho == 0:
            qm[0] = {"LL": 0}
        else:
            qm[0] = {"L": 0}
            for lv in range(1, dho + 1):
                qm[lv] = {"H": (lv if ramp else 0)}
        for lv in range(dho + 1, dho + d + 1):
            qm[lv] = {"HL": (lv if ramp else 0), "LH": (lv if ramp else 0), "HH": (lv + 1 if ramp else 0)}
    lossless = cfg["mode"] == "hq_lossless"
    return CodecFeatures(
        name="verif",
        level=Levels.unconstrained,
        profile=Profiles.low_delay if cfg["mode"] == "ld_lossy" else Profiles.high_quality,
        picture_coding_mode=PictureCodingModes(cfg["pcm"]),
        video_parameters=vp,
        wavelet_index=WaveletFilters(cfg["wi"]),
        wavelet_index_ho=WaveletFilters(cfg["wiho"]),
        dwt_depth=d,
        dwt_depth_ho=dho,
        slices_x=cfg["sx"],
        slices_y=cfg["sy"],
        fragment_slice_count=cfg["fsc"],
        lossless=lossless,
        picture_bytes=None if lossless else outcome["picture_bytes"],
        quantization_matrix=qm,
    )


def make_pictures(cfg, outcome, seed):
    """In-range pictures of the content class chosen by the configuration; picture numbers from the spec."""
    rnd = random.Random(seed)
    dm = outcome["dims"]
    ymax = (1 << outcome["ydepth"]) - 1
    cmax = (1 << outcome["cdepth"]) - 1
    content = cfg["content"]

    def plane(w, h, mx):
        if content == "random":
            return [[rnd.randint(0, mx) for _ in range(w)] for _ in range(h)]
        if content == "zeros":
            return [[0] * w for _ in range(h)]
        if content == "max":
            return [[mx] * w for _ in range(h)]
        if content == "checker":
            ph = rnd.randrange(2)
            return [[mx if (x + y + ph) % 2 else 0 for x in range(w)] for y in range(h)]
        mid = (mx + 1) // 2
        p = [[mid] * w for _ in range(h)]
        if content == "impulse":
            p[rnd.randrange(h)][rnd.randrange(w)] = mx
            p[rnd.randrange(h)][rnd.randrange(w)] = 0
        return p

    pics = []
    for i in range(cfg["npics"]):
        p = {"Y": plane(dm["yw"], dm["yh"], ymax), "C1": plane(dm["cw"], dm["ch"], cmax), "C2": plane(dm["cw"], dm["ch"], cmax)}
        if cfg["pn"] != "auto":
            n = outcome["numbers"][i]
            p["pic_num"] = n["hi"] * 65536 + n["lo"]
        pics.append(p)
    return pics


def share_objects(pictures, how):
    """how = "rows": every plane becomes h references to ONE row object (its first row); "planes": C2 is the very
    object C1 (so both hold C1's values); "both": both."""
    out = []
    for p in pictures:
        q = dict(p)
        if how in ("rows", "both"):
            for c in ("Y", "C1", "C2"):
                if q[c]:
                    row = list(q[c][0])
                    q[c] = [row] * len(q[c])
        if how in ("planes", "both"):
            q["C2"] = q["C1"]
        out.append(q)
    return out


def hl(n):
    return {"hi": (n >> 16) & 0xFFFF, "lo": n & 0xFFFF}


# ------------------------------------------------------------------------------ observation
_UNITS_PARSED = [0]
_WRAPPED = [False]


def install_observer():
    """In-process observation wrapper (DESIGN 3.3): count the data units the validator has parsed."""
    if _WRAPPED[0]:
        return
    from vc2_conformance.decoder import stream as dstream

    orig = dstream.parse_info

    def parse_info(state):
        r = orig(state)
        _UNITS_PARSED[0] += 1
        return r

    parse_info.__wrapped__ = orig
    dstream.parse_info = parse_info
    _WRAPPED[0] = True


def project_plane(a):
    hgt = len(a)
    wid = len(a[0]) if hgt else 0
    rect = all(len(r) == wid for r in a)
    allint = all(type(v) is int for r in a for v in r)
    flat = [v for r in a for v in r]
    mn = min(flat) if flat and allint else 0
    mx = max(flat) if flat and allint else 0
    return hgt, wid, rect, allint, max(-CLAMP, min(CLAMP, mn)), max(-CLAMP, min(CLAMP, mx))


def decode(data, features, inputs):
    """Run the validator/decoder on bytes; returns (verdict, exc_signature, [projected picture])."""
    from vc2_conformance.pseudocode.state import State
    from vc2_conformance.decoder import init_io, parse_stream, ConformanceError

    install_observer()
    pics = []
    _UNITS_PARSED[0] = 0

    def cb(picture, video_parameters, picture_coding_mode):
        i = len(pics)
        yh, yw, yr, yi, ymin, ymax = project_plane(picture["Y"])
        h1, w1, r1, i1, mn1, mx1 = project_plane(picture["C1"])
        h2, w2, r2, i2, mn2, mx2 = project_plane(picture["C2"])
        same_c = (h1, w1) == (h2, w2)
        equal = False
        if inputs is not None and i < len(inputs):
            equal = all(picture[c] == inputs[i][c] for c in ("Y", "C1", "C2"))
        pn = picture.get("pic_num")
        pics.append(
            {
                "pn": hl(pn) if isinstance(pn, int) and 0 <= pn < (1 << 32) else {"hi": -1, "lo": -1},
                "after": _UNITS_PARSED[0],
                "yw": yw, "yh": yh, "cw": w1 if same_c else -1, "ch": h1 if same_c else -1,
                "rect": bool(yr and r1 and r2),
                "allint": bool(yi and i1 and i2),
                "ymin": ymin, "ymax": ymax, "cmin": min(mn1, mn2), "cmax": max(mx1, mx2),
                "vpeq": bool(features is not None and video_parameters == features["video_parameters"]),
                "pcmeq": bool(features is not None and picture_coding_mode == features["picture_coding_mode"]),
                "equal": bool(equal),
                "hdr": {
                    "w": int(video_parameters["frame_width"]), "h": int(video_parameters["frame_height"]),
                    "cdf": int(video_parameters["color_diff_format_index"]), "pcm": int(picture_coding_mode),
                    "le": min(CLAMP, int(video_parameters["luma_excursion"])), "ce": min(CLAMP, int(video_parameters["color_diff_excursion"])),
                },
            }
        )

    state = State(_output_picture_callback=cb)
    init_io(state, BytesIO(data))
    try:
        parse_stream(state)
        return "accepted", "", pics
    except ConformanceError as e:
        return "rejected", common.exc_signature(e), pics
    except Exception as e:  # noqa
        return "crash", common.exc_signature(e), pics


def read_back(data):
    """Deserialise bytes with vc2_conformance.bitstream; project the unit list and header facts."""
    from vc2_conformance.bitstream import Deserialiser, BitstreamReader, parse_stream
    from vc2_conformance.pseudocode.state import State

    with Deserialiser(BitstreamReader(BytesIO(data))) as des:
        parse_stream(des, State())
    return des.context


def project_stream(stream):
    from vc2_data_tables import ParseCodes

    units = []
    etp = []
    q0 = []
    version = -1
    presets = {"fr": 0, "sr": 0, "cs": 0, "cp": 0, "cm": 0, "tf": 0}
    nslices = 0
    for seq in stream["sequences"]:
        for du in seq["data_units"]:
            code = du["parse_info"]["parse_code"]
            try:
                name = ParseCodes(code).name
            except ValueError:
                name = str(code)
            if name == "sequence_header":
                sh = du["sequence_header"]
                version = int(sh["parse_parameters"]["major_version"])
                sp = sh["video_parameters"]
                if sp["frame_rate"]["custom_frame_rate_flag"]:
                    presets["fr"] = int(sp["frame_rate"]["index"])
                if sp["signal_range"]["custom_signal_range_flag"]:
                    presets["sr"] = int(sp["signal_range"]["index"])
                cs = sp["color_spec"]
                if cs["custom_color_spec_flag"]:
                    presets["cs"] = int(cs["index"])
                    if presets["cs"] == 0:
                        for key, sub in (("cp", "color_primaries"), ("cm", "color_matrix"), ("tf", "transfer_function")):
                            flagname = "custom_%s_flag" % sub
                            if cs[sub][flagname]:
                                presets[key] = int(cs[sub]["index"])
                units.append({"k": "SH", "cnt": 0, "pn": hl(0)})
            elif name in ("high_quality_picture", "low_delay_picture"):
                pp = du["picture_parse"]
                tp = pp["wavelet_transform"]["transform_parameters"]
                etp.append("extended_transform_parameters" in tp)
                nslices = tp["slice_parameters"]["slices_x"] * tp["slice_parameters"]["slices_y"]
                td = pp["wavelet_transform"]["transform_data"]
                sl = td.get("hq_slices", td.get("ld_slices", []))
                q0.append(all(s["qindex"] == 0 for s in sl))
                units.append({"k": "PIC", "cnt": 0, "pn": hl(pp["picture_header"]["picture_number"])})
            elif name in ("high_quality_picture_fragment", "low_delay_picture_fragment"):
                fp = du["fragment_parse"]
                fh = fp["fragment_header"]
                cnt = int(fh["fragment_slice_count"])
                if cnt == 0:
                    tp = fp["transform_parameters"]
                    etp.append("extended_transform_parameters" in tp)
                    nslices = tp["slice_parameters"]["slices_x"] * tp["slice_parameters"]["slices_y"]
                    q0.append(True)
                else:
                    fd = fp["fragment_data"]
                    sl = fd.get("hq_slices", fd.get("ld_slices", []))
                    if q0:
                        q0[-1] = q0[-1] and all(s["qindex"] == 0 for s in sl)
                units.append({"k": "FRAG", "cnt": cnt, "pn": hl(fh["picture_number"])})
            elif name == "end_of_sequence":
                units.append({"k": "EOS", "cnt": 0, "pn": hl(0)})
            elif name == "padding_data":
                units.append({"k": "PAD", "cnt": 0, "pn": hl(0)})
            elif name == "auxiliary_data":
                units.append({"k": "AUX", "cnt": 0, "pn": hl(0)})
            else:
                units.append({"k": "OTHER", "cnt": 0, "pn": hl(0)})
    return {"units": units, "etp": etp, "q0": q0, "version": version, "presets": presets, "nslices": int(nslices)}


EMPTY_STREAM = {"units": [], "etp": [], "q0": [], "version": -1, "presets": {"fr": 0, "sr": 0, "cs": 0, "cp": 0, "cm": 0, "tf": 0}, "nslices": 0}


# ------------------------------------------------------------------------------ re-packing (C09)
def _slen(v):
    from vc2_conformance.bitstream.exp_golomb import signed_exp_golomb_length

    return signed_exp_golomb_length(v)


def _values(rnd, n, klass):
    """n coefficient values of an adversarial class (concretisation only: any integers are legal)."""
    if klass == "extreme":
        k = rnd.choice([20, 31, 40, 63])
        return [rnd.choice([-1, 1]) * ((1 << k) - rnd.randrange(2)) if rnd.random() < 0.5 else 0 for _ in range(n)]
    if klass == "alternating":
        k = rnd.choice([8, 16, 24])
        return [(1 << k) * (1 if i % 2 else -1) for i in range(n)]
    if klass == "dc":
        return [rnd.choice([-1, 1]) << rnd.choice([10, 17, 30])] + [0] * (n - 1) if n else []
    if klass == "dangling":
        v = [rnd.randint(-6, 6) for _ in range(n)]
        return v
    return [rnd.randint(-(1 << rnd.randrange(1, 18)), 1 << rnd.randrange(1, 18)) for _ in range(n)]


def _fit(vals, bits):
    """Zero values from the end until the signed exp-Golomb code fits in `bits` (trailing zeros are implicit)."""
    vals = list(vals)
    total = sum(_slen(v) for v in vals)
    trailing = len(vals)
    while trailing > 0:
        # cost without the implicit trailing zeros
        while trailing > 0 and vals[trailing - 1] == 0:
            trailing -= 1
        need = sum(_slen(v) for v in vals[:trailing])
        if need <= bits:
            break
        vals[trailing - 1] = 0
    return vals, sum(_slen(v) for v in vals[: max(trailing, 0)])


def repack(stream, rnd, klass):
    """Replace the coefficients of every slice of a deserialised stream (in place); returns a description.

    HQ: length fields are recomputed (values are cut back if a field would exceed 255); LD: slice sizes are fixed
    by the transform parameters, so values are cut back until they fit and slice_y_length is chosen freely.
    'dangling': the last non-zero value is negative and the block is cut 1-2 bits short, so that its final
    bits lie beyond the end of the bounded block (they read as 1s)."""
    from vc2_conformance.pseudocode.state import State
    from vc2_conformance.pseudocode.slice_sizes import slice_bytes
    from vc2_conformance.pseudocode.vc2_math import intlog2

    n_dangling = 0
    n_slices = 0
    for seq in stream["sequences"]:
        tp = None
        sidx = 0
        for du in seq["data_units"]:
            slices = None
            if "picture_parse" in du:
                wt = du["picture_parse"]["wavelet_transform"]
                tp = wt["transform_parameters"]
                sidx = 0
                td = wt["transform_data"]
                slices = td.get("hq_slices") or td.get("ld_slices")
                hq = "hq_slices" in td
            elif "fragment_parse" in du:
                fp = du["fragment_parse"]
                if "transform_parameters" in fp:
                    tp = fp["transform_parameters"]
                    sidx = 0
                elif "fragment_data" in fp:
                    fd = fp["fragment_data"]
                    slices = fd.get("hq_slices") or fd.get("ld_slices")
                    hq = "hq_slices" in fd
            if not slices:
                continue
            sp = tp["slice_parameters"]
            for s in slices:
                sx, sy = sidx % sp["slices_x"], sidx // sp["slices_x"]
                sidx += 1
                n_slices += 1
                if hq:
                    scaler = sp["slice_size_scaler"]
                    s["qindex"] = rnd.choice([0, 0, 1, 7, rnd.randrange(0, 120)])
                    for comp in ("y", "c1", "c2"):
                        n = len(s[comp + "_transform"])
                        vals, need = _fit(_values(rnd, n, klass), 8 * scaler * 255)
                        length = (need + 8 * scaler - 1) // (8 * scaler)
                        if klass == "dangling" and need > 2:
                            nz = [i for i, v in enumerate(vals) if v != 0]
                            if nz and vals[nz[-1]] > 0:
                                vals[nz[-1]] = -vals[nz[-1]]
                            if nz and need % (8 * scaler) in (1, 2):
                                length = need // (8 * scaler)
                                n_dangling += 1
                        s[comp + "_transform"] = vals
                        s["slice_%s_length" % comp] = length
                        s.pop(comp + "_block_padding", None)
                else:
                    st = State(slices_x=sp["slices_x"], slices_y=sp["slices_y"], slice_bytes_numerator=sp["slice_bytes_numerator"], slice_bytes_denominator=sp["slice_bytes_denominator"])
                    total = 8 * slice_bytes(st, sx, sy)
                    length_bits = intlog2(total - 7)
                    avail = total - 7 - length_bits
                    s["qindex"] = rnd.choice([0, 0, 1, 7, rnd.randrange(0, 100)])
                    ny, nc = len(s["y_transform"]), len(s["c_transform"])
                    ybits = rnd.randint(0, avail)
                    yv, yneed = _fit(_values(rnd, ny, klass), ybits)
                    cv, cneed = _fit(_values(rnd, nc, klass), avail - yneed)
                    ylen = yneed
                    if klass == "dangling":
                        nz = [i for i, v in enumerate(yv) if v != 0]
                        if nz and yneed >= 3:
                            if yv[nz[-1]] > 0:
                                yv[nz[-1]] = -yv[nz[-1]]
                            ylen = yneed - rnd.choice([1, 2])
                            n_dangling += 1
                    else:
                        ylen = rnd.randint(yneed, avail - cneed)
                    s["y_transform"], s["c_transform"], s["slice_y_length"] = yv, cv, ylen
                    s.pop("y_block_padding", None)
                    s.pop("c_block_padding", None)
        for du in seq["data_units"]:
            pi = du["parse_info"]
            pi.pop("next_parse_offset", None)
            pi.pop("previous_parse_offset", None)
            if "fragment_parse" in du:
                du["fragment_parse"]["fragment_header"]["fragment_data_length"] = 0
    return {"class": klass, "slices": n_slices, "dangling_blocks": n_dangling}


REPACK_CLASSES = ["extreme", "random", "alternating", "dc", "dangling"]


# ------------------------------------------------------------------------------ one run
def execute(job):
    """job = {tid, cfg, outcome, seed, repack: [class, ...]} -> {"records": [...], "detail": {...}}"""
    from vc2_conformance.encoder.sequence import make_sequence
    from vc2_conformance.encoder.exceptions import UnsatisfiableCodecFeaturesError
    from vc2_conformance.bitstream import Stream, autofill_and_serialise_stream

    cfg, outcome = job["cfg"], job["outcome"]
    rec = dict(EMPTY_STREAM)
    rec.update({"tid": job["tid"], "ev": "run", "kind": "encoder", "cfg": cfg, "npics": cfg["npics"], "enc": "ok", "ser": "ok", "verdict": "none", "pics": []})
    detail = {"exc": ""}
    features = make_features(cfg, outcome)
    pictures = make_pictures(cfg, outcome, job["seed"])
    inputs = pictures
    if job.get("share"):
        # the same picture VALUES held in Python objects that share storage (the common idioms [row] * h and one
        # plane object used for both colour-difference components); `inputs` keeps an unshared snapshot of the values
        pictures = share_objects(pictures, job["share"])
        inputs = [dict((k, ([list(r) for r in v] if k in ("Y", "C1", "C2") else v)) for k, v in p.items()) for p in pictures]
    kwargs = {}
    if cfg["minq"]:
        kwargs["minimum_qindex"] = cfg["minq"]
    if cfg["minscaler"] != 1:
        kwargs["minimum_slice_size_scaler"] = cfg["minscaler"]
    try:
        seq = make_sequence(features, pictures, **kwargs)
    except UnsatisfiableCodecFeaturesError as e:
        rec["enc"] = "refused"
        detail["exc"] = common.exc_signature(e)
        return {"records": [rec], "detail": detail}
    except Exception as e:  # noqa
        rec["enc"] = "crash"
        detail["exc"] = common.exc_signature(e)
        detail["tb"] = traceback.format_exc()[-800:]
        return {"records": [rec], "detail": detail}
    f = BytesIO()
    try:
        autofill_and_serialise_stream(f, Stream(sequences=[seq]))
    except Exception as e:  # noqa
        rec["ser"] = "crash"
        detail["exc"] = common.exc_signature(e)
        detail["tb"] = traceback.format_exc()[-800:]
        return {"records": [rec], "detail": detail}
    data = f.getvalue()
    detail["bytes"] = len(data)
    stream = None
    try:
        stream = read_back(data)
        rec.update(project_stream(stream))
    except Exception as e:  # noqa  (the validator is the judge; an unreadable stream shows up there)
        detail["readback_exc"] = common.exc_signature(e)
    verdict, sig, pics = decode(data, features, inputs)
    rec["verdict"], rec["pics"] = verdict, pics
    if sig:
        detail["exc"] = sig
    records = [rec]
    rp_detail = []
    for k, klass in enumerate(job.get("repack") or []):
        if stream is None or verdict != "accepted":
            break
        rnd = random.Random(job["seed"] * 31 + k)
        r2 = dict(EMPTY_STREAM)
        r2.update({"tid": job["tid"], "ev": "run", "kind": "repacked", "cfg": cfg, "npics": cfg["npics"], "enc": "ok", "ser": "ok", "verdict": "none", "pics": [], "klass": klass})
        try:
            s2 = read_back(data)
            info = repack(s2, rnd, klass)
            f2 = BytesIO()
            autofill_and_serialise_stream(f2, s2)
            d2 = f2.getvalue()
            r2.update(project_stream(read_back(d2)))
        except Exception as e:  # noqa: the re-packer is harness code; failure to build an input is not a verdict
            r2["ser"] = "crash"
            rp_detail.append({"class": klass, "build_failed": common.exc_signature(e), "tb": traceback.format_exc()[-600:]})
            records.append(r2)
            continue
        v2, sig2, pics2 = decode(d2, None, None)
        r2["verdict"], r2["pics"] = v2, pics2
        info["verdict"] = v2
        info["exc"] = sig2
        rp_detail.append(info)
        records.append(r2)
    detail["repack"] = rp_detail
    return {"records": records, "detail": detail}


def make_jobs(ctx, cfgs, repack_per_cfg=0):
    jobs = []
    for i, c in enumerate(cfgs):
        rp = []
        for k in range(repack_per_cfg):
            rp.append(REPACK_CLASSES[(i + k) % len(REPACK_CLASSES)])
        jobs.append({"tid": i + 1, "cfg": c["cfg"], "outcome": c["outcome"], "seed": ctx.seed * 1000003 + i, "repack": rp})
    return jobs


def run_jobs(jobs):
    return common.pmap(execute, jobs)


# ------------------------------------------------------------------------------ judging (T)
def judge(records):
    """TLC evaluates CodecTrace on the records. Returns (bad, applied, res)."""
    bad, res = trace.validate("CodecTrace", records, max_lines=10 ** 9)  # one run: the spec prints its APPLIED totals at the end
    ap = printed_json(res, "APPLIED")
    applied = ap[-1] if ap else {}
    return bad, applied, res


def flatten(results):
    """records in file order with the index of their job; line numbers are 1-based."""
    records = []
    owner = []
    for j, r in enumerate(results):
        for rec in r["records"]:
            records.append(rec)
            owner.append(j)
    return records, owner


def case_of(job):
    case = {"cfg": job["cfg"], "outcome": job["outcome"], "seed": job["seed"], "repack": job.get("repack") or []}
    if job.get("share"):
        case["share"] = job["share"]
    return case


def replay_case(case, family):
    job = {"tid": 1, "cfg": case["cfg"], "outcome": case["outcome"], "seed": case["seed"], "repack": case.get("repack") or [], "share": case.get("share")}
    r = execute(job)
    bad, applied, _ = judge(r["records"])
    return {
        "violations": [b for b in bad if b["alarm"] and b["clause"].startswith(family + ".")],
        "other_verdicts": [b for b in bad if not b["clause"].startswith(family + ".")],
        "detail": r["detail"],
        "records": [{k: v for k, v in rec.items() if k not in ("cfg",)} for rec in r["records"]],
    }


def sample_record(rec):
    r = {k: v for k, v in rec.items() if k in ("kind", "enc", "ser", "verdict", "version", "npics", "q0", "klass", "cfg")}
    r["units"] = [u["k"] + (":%d" % u["cnt"] if u["k"] == "FRAG" else "") for u in rec["units"]]
    r["pics"] = [{k: p[k] for k in ("pn", "after", "yw", "yh", "cw", "ch", "ymin", "ymax", "cmin", "cmax", "equal", "vpeq")} for p in rec["pics"][:2]]
    return r


# ------------------------------------------------------------------------------ generic check runner
def run_family(ctx, family, repack_per_cfg=0, only=None, selftest=None, nontrivial=None, rule=""):
    """Shared skeleton of c03/c04/c09: TLC enumerates configurations, every one is executed, TLC judges the
    recorded runs; only clauses of `family` raise the alarm (R1)."""
    cfgs, info = configurations(ctx, only=only)
    if not cfgs:
        raise RuntimeError("no configurations")
    jobs = make_jobs(ctx, cfgs, repack_per_cfg)
    results = run_jobs(jobs)
    records, owner = flatten(results)
    bad, applied, res = judge(records)
    ctx.add_tlc(res, "trace validation (CodecTrace) of %d recorded runs" % len(records))
    key = family.lower()
    if not applied.get(key):
        raise RuntimeError("vacuous: no recorded run was judged by the %s clauses" % family)
    n_viol = 0
    disagreements = {}
    other = {}
    for b in bad:
        j = owner[b["line"] - 1]
        rec = records[b["line"] - 1]
        det = results[j]["detail"]
        if b["clause"].startswith(family + "."):
            n_viol += 1
            exc = det.get("exc", "")
            if rec["kind"] == "repacked":
                exc = ";".join(x.get("exc", "") for x in det.get("repack", []) if x.get("class") == rec.get("klass"))
            sig = "%s|%s|%s|%s" % (family, b["clause"].split(".", 1)[1], rec["kind"], exc)
            what = "%s on %s run of cfg %s: enc=%s ser=%s verdict=%s pics=%d/%d %s" % (
                b["clause"], rec["kind"], json.dumps(rec["cfg"], sort_keys=True), rec["enc"], rec["ser"], rec["verdict"], len(rec["pics"]), rec["npics"], exc)
            ctx.violation(sig, what, case_of(jobs[j]))
        elif b["alarm"]:
            other[b["clause"]] = other.get(b["clause"], 0) + 1
        else:
            disagreements[b["clause"]] = disagreements.get(b["clause"], 0) + 1
    enc_counts = {}
    verdicts = {}
    for r in records:
        enc_counts[r["enc"] + "/" + r["ser"]] = enc_counts.get(r["enc"] + "/" + r["ser"], 0) + 1
        verdicts[r["kind"] + ":" + r["verdict"]] = verdicts.get(r["kind"] + ":" + r["verdict"], 0) + 1
    st = selftest(ctx, cfgs) if selftest else None
    nt = sum(1 for j, r in zip(jobs, results) if nontrivial(j, r)) if nontrivial else len(jobs)
    ctx.coverage.update(
        {
            "traces_validated_against_impl": len(records),
            "evaluations": int(applied.get(key, 0)),
            "clause_families_applied": applied,
            "distinct_nontrivial": nt,
            "rule": rule,
            "exhaustive": True,
            "exhaustive_note": "exhaustive over the pairwise design enumerated by TLC (every compatible value pair of any two of the %d dimensions); not over the full product" % len(DIMS),
            "configurations": len(cfgs),
            "configuration_space": info,
            "encoder_outcomes": enc_counts,
            "verdicts": verdicts,
            "spec_disagreements": sum(disagreements.values()),
            "spec_disagreement_clauses": disagreements,
            "other_property_clauses_ignored": other,
            "binding_selftest": st,
            "samples": [sample_record(records[i]) for i in sorted(set([0, len(records) // 3, (2 * len(records)) // 3, len(records) - 1]))],
        }
    )
    ctx.assumptions += [
        "pictures are at most 16x8 luma samples; dimension values as listed in CodecConfig!Dom (level = unconstrained, no extra data-unit patterns)",
        "picture content classes: random, zeros, max, checker, mid, impulse (seeded from VERIF_SEED)",
        "data units / qindex / version are read back from the serialised bytes with vc2_conformance.bitstream (the deserialiser is trusted for this projection)",
    ]
    return {"cfgs": cfgs, "jobs": jobs, "results": results, "records": records, "bad": bad, "applied": applied}


def selftest_runs(cfgs, pred, n=6, repack=()):
    """Execute the first n configurations satisfying pred in-process (used by the binding self-tests)."""
    out = []
    for i, c in enumerate(cfgs):
        if pred(c["cfg"]):
            out.append(execute({"tid": len(out) + 1, "cfg": c["cfg"], "outcome": c["outcome"], "seed": 12345 + i, "repack": list(repack)}))
            if len(out) >= n:
                break
    if not out:
        raise RuntimeError("self-test: no configuration matches")
    recs, _ = flatten(out)
    return recs
