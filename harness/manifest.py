"""Generates /verif/MANIFEST.json from the table below:  python -m harness.manifest"""
import json
import os

VERIF = os.path.dirname(os.path.dirname(os.path.abspath(__file__)))

BASELINE_OFF = (
    "cd /repo && env -u VC2_CONFORMANCE_VERIF /venv/bin/python -m pytest -ra -q -p no:cacheprovider "
    "--timeout=900 --continue-on-collection-errors --junitxml=/tmp/vc2_baseline_off.junit.xml"
)

# pid -> (engine/spec modules, technique, level text, level note, design ref)
CHECKS = {
    "C27": (
        "FixedDict.tla",
        "TLC exhaustive exploration of FixedDict.tla; every (state, operation) transition replayed on every fixeddict type",
        "TLC checks OnlyDeclared/SameType/RejectIffUndeclared/CopyPickleIdentity on the explicit spec (all ordered argument lists of <=2 keys, 9 operations); the dump yields one shortest history per abstract transition and each is executed on all 37 fixeddict types of the library with the key set, type and exception class compared after every step (thorough adds 4000 random walks of depth 12). Exhaustive at the level of abstract transitions, which is the right level for a 9-method dict subclass.",
        "Trusts TLC, the TLA+ value parser and the concretisation (k1/k2 -> first/last declared entry). Hidden implementation state outside (key set, values, type) is not modelled.",
        "5/C27",
    ),
}

NOT_APPLICABLE = []


def build():
    checks = []
    for pid in sorted(CHECKS):
        eng, tech, text, note, ref = CHECKS[pid]
        checks.append(
            {
                "property_id": pid,
                "quick_cmd": "./check %s --tier quick" % pid,
                "thorough_cmd": "./check %s --tier thorough" % pid,
                "evidence_file": "/verif/evidence/%s.json" % pid,
                "replay_cmd_template": "./check %s --replay {path}" % pid,
                "engine": eng,
                "technique": tech,
                "level_claimed": {"category": "model_checking", "text": text, "design_ref": "DESIGN.md section " + ref},
                "level_note": note,
            }
        )
    man = {
        "version": 1,
        "setup_cmd": "./setup.sh",
        "hooks": {
            "guard": "VC2_CONFORMANCE_VERIF",
            "enable": "environment variable VC2_CONFORMANCE_VERIF=1 (set by ./check); /repo is pure Python and is imported from its working tree (PYTHONPATH=/repo), nothing to build",
            "baseline_off_cmd": BASELINE_OFF,
            "source_commits": [],
            "add_only": True,
        },
        "engines": [
            {"name": "tlc", "path": "/verif/harness/tlc.py", "kind_free_text": "TLC 1.8 explicit-state model checker on the modules in /verif/spec (exhaustive configs in spec/mc, -dump for behaviour extraction, -simulate for random walks, trace specs for validation of recorded implementation traces)", "serves_properties": sorted(CHECKS)},
        ],
        "checks": checks,
        "not_applicable": NOT_APPLICABLE,
        "notes": "All checks: ./check <id> --tier quick|thorough; exit 0 held / 1 VIOLATION / 2 machinery failure. known_findings.json lists genuine defects (fixed or known).",
    }
    return man


if __name__ == "__main__":
    with open(os.path.join(VERIF, "MANIFEST.json"), "w") as f:
        json.dump(build(), f, indent=1)
        f.write("\n")
    print("MANIFEST.json written: %d checks" % len(CHECKS))
