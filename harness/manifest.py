"""Generates /verif/MANIFEST.json from the table below:  python -m harness.manifest"""
import json
import os

VERIF = os.path.dirname(os.path.dirname(os.path.abspath(__file__)))

BASELINE_OFF = (
    "cd /repo && env -u VC2_CONFORMANCE_VERIF /venv/bin/python -m pytest -ra -q -p no:cacheprovider "
    "--timeout=900 --continue-on-collection-errors --junitxml=/tmp/vc2_baseline_off.junit.xml"
)

def load_entries():
    d = os.path.join(os.path.dirname(__file__), "manifest_entries")
    out = {}
    for fn in sorted(os.listdir(d)):
        if fn.endswith(".json"):
            with open(os.path.join(d, fn)) as f:
                e = json.load(f)
            out[fn[:-5]] = (e["engine"], e["technique"], e["level_text"], e["level_note"], e["design_ref"])
    return out


CHECKS = load_entries()

NOT_APPLICABLE = []


def build():
    checks = []
    for pid in sorted(CHECKS):
        eng, tech, text, note, ref = CHECKS[pid]
        checks.append(
            {
                "property_id": pid,
                "quick_cmd": "./check %s --tier quick" % pid,
                "thorough_cmd": "./check %s --tier thorough" % pid,
                "evidence_file": "/verif/evidence/%s.json" % pid,
                "replay_cmd_template": "./check %s --replay {path}" % pid,
                "engine": eng,
                "technique": tech,
                "level_claimed": {"category": "model_checking", "text": text, "design_ref": "DESIGN.md section " + ref},
                "level_note": note,
            }
        )
    man = {
        "version": 1,
        "setup_cmd": "./setup.sh",
        "hooks": {
            "guard": "VC2_CONFORMANCE_VERIF",
            "enable": "environment variable VC2_CONFORMANCE_VERIF=1 (set by ./check); /repo is pure Python and is imported from its working tree (PYTHONPATH=/repo), nothing to build",
            "baseline_off_cmd": BASELINE_OFF,
            "source_commits": [],
            "add_only": True,
        },
        "engines": [
            {"name": "tlc", "path": "/verif/harness/tlc.py", "kind_free_text": "TLC 1.8 explicit-state model checker on the modules in /verif/spec (exhaustive configs in spec/mc, -dump for behaviour extraction, -simulate for random walks, trace specs for validation of recorded implementation traces)", "serves_properties": sorted(CHECKS)},
        ],
        "checks": checks,
        "not_applicable": NOT_APPLICABLE,
        "notes": "All checks: ./check <id> --tier quick|thorough; exit 0 held / 1 VIOLATION / 2 machinery failure. known_findings.json lists genuine defects (fixed or known).",
    }
    return man


if __name__ == "__main__":
    with open(os.path.join(VERIF, "MANIFEST.json"), "w") as f:
        json.dump(build(), f, indent=1)
        f.write("\n")
    print("MANIFEST.json written: %d checks" % len(CHECKS))
