"""Independent VC-2 byte-level writer for tiny streams (DESIGN R3).

Nothing here imports vc2_conformance: streams fed to the validator / deserialiser / viewer for the consumer
properties (C01, C02, C10, C25, C26) are assembled from first principles (SMPTE ST 2042-1 sections 10-14, A.3),
so a fault injected into the library's serialiser cannot masquerade as (or hide) a validator fault.
"""

PREFIX = b"BBCD"
PC_SH, PC_EOS, PC_AUX, PC_PAD = 0x00, 0x10, 0x20, 0x30
PC_LD_PIC, PC_HQ_PIC, PC_LD_FRAG, PC_HQ_FRAG = 0xC8, 0xE8, 0xCC, 0xEC
PROFILE = {"LD": 0, "HQ": 3}


class Bits(object):
    def __init__(self):
        self.b = []

    def nbits(self, n, v):
        for i in range(n - 1, -1, -1):
            self.b.append((v >> i) & 1)

    def bool(self, v):
        self.b.append(1 if v else 0)

    def uint(self, v):
        """(A.4.3) interleaved exp-Golomb"""
        v += 1
        top = v.bit_length() - 1
        for i in range(top - 1, -1, -1):
            self.b.append(0)
            self.b.append((v >> i) & 1)
        self.b.append(1)

    def sint(self, v):
        self.uint(abs(v))
        if v != 0:
            self.b.append(1 if v < 0 else 0)

    def align(self, fill=0):
        while len(self.b) % 8:
            self.b.append(fill)

    def bytes(self, data):
        for x in bytearray(data):
            self.nbits(8, x)

    def tobytes(self):
        self.align()
        out = bytearray()
        for i in range(0, len(self.b), 8):
            x = 0
            for bit in self.b[i : i + 8]:
                x = (x << 1) | bit
            out.append(x)
        return bytes(out)


def u32(v):
    return bytes(bytearray([(v >> 24) & 255, (v >> 16) & 255, (v >> 8) & 255, v & 255]))


def u16(v):
    return bytes(bytearray([(v >> 8) & 255, v & 255]))


def parse_info(code, npo, ppo, prefix=PREFIX):
    return prefix + bytes(bytearray([code])) + u32(npo) + u32(ppo)


class Fmt(object):
    """The tiny video/codec format used by a stream."""

    def __init__(self, profile="HQ", version=3, level=0, fields=False, width=4, height=4, slices_x=2, slices_y=1, wavelet=0, depth=0, base=0):
        self.profile = profile
        self.version = version
        self.level = level
        self.fields = fields
        self.width = width
        self.height = height
        self.slices_x = slices_x
        self.slices_y = slices_y
        self.wavelet = wavelet
        self.depth = depth
        self.base = base

    @property
    def nslices(self):
        return self.slices_x * self.slices_y


def _sequence_header_bits(f, variant, left, top, scan_custom, aspect_custom, sr_index):
    b = Bits()
    b.uint(f.version)
    b.uint(0)
    b.uint(PROFILE[f.profile])
    b.uint(f.level)
    b.uint(f.base)
    b.bool(1)  # custom_dimensions_flag
    b.uint(f.width + (4 * (variant == 1)))
    b.uint(f.height)
    b.bool(0)  # colour-difference format: base format default
    b.bool(scan_custom)
    if scan_custom:
        b.uint(0)  # progressive (the base format's value, coded explicitly)
    b.bool(0)  # frame rate
    b.bool(aspect_custom)
    if aspect_custom:
        b.uint(1)  # pixel aspect ratio preset 1 (1:1)
    b.bool(1)  # custom_clean_area_flag: the clean area must lie within the (tiny) frame
    b.uint(f.width + (4 * (variant == 1)) - left)
    b.uint(f.height - top)
    b.uint(left)
    b.uint(top)
    if sr_index:
        b.bool(1)
        b.uint(sr_index)  # signal range preset (1: 8 bit full range, 2: 8 bit video)
    else:
        b.bool(0)
    b.bool(0)  # colour spec
    b.uint(1 if f.fields else 0)
    return b


def sequence_header_payload(f, variant=0):
    """variant 1 gives a different but individually valid header (frame width changed, i.e. differing early);
    variant 2 one that differs from variant 0 ONLY IN ITS LAST BITS and has the same length (signal range preset 2
    instead of 1).  Variant 2 needs a format with f.tail_residue = r (0..7): every header of such a format codes a
    signal range preset, and clean-area offsets / explicit scan format / aspect ratio are chosen so that the header
    is r bits longer than a whole number of bytes -- a comparison of repeated headers that is sloppy about the
    partly used last byte shows only for some r."""
    r = getattr(f, "tail_residue", None)
    if r is None:
        if variant == 2:
            raise ValueError("variant 2 needs f.tail_residue")
        return _sequence_header_bits(f, variant, 0, 0, 0, 0, 0).tobytes()
    for left in (0, 1, 2, 3):
        for top in (0, 1, 2, 3):
            for scan_custom in (0, 1):
                for aspect_custom in (0, 1):
                    if left >= f.width or top >= f.height:
                        continue
                    b = _sequence_header_bits(f, 0 if variant == 2 else variant, left, top, scan_custom, aspect_custom, 2 if variant == 2 else 1)
                    if len(b.b) % 8 == r:
                        return b.tobytes()
    raise ValueError("no header layout with %d bits over a whole byte" % r)


def sequence_header_base_defaults(base, version=2, profile="HQ", clean=(16, 16), fields=False, level=0):
    """a sequence header that takes its frame size, colour-difference format, scan format and signal range from
    base video format `base` (no custom dimensions); only the clean area is custom (a small one at the origin)"""
    b = Bits()
    b.uint(version)
    b.uint(0)
    b.uint(PROFILE[profile])
    b.uint(level)
    b.uint(base)
    for _ in range(5):  # dimensions, colour-diff format, scan format, frame rate, aspect ratio: defaults
        b.bool(0)
    if clean is None:
        b.bool(0)
    else:
        b.bool(1)  # custom_clean_area_flag
        b.uint(clean[0])
        b.uint(clean[1])
        b.uint(0)
        b.uint(0)
    b.bool(0)  # signal range
    b.bool(0)  # colour spec
    b.uint(1 if fields else 0)
    return b.tobytes()


def sequence_header_all_custom(f, frame_rate=(25, 1), aspect=(1, 1)):
    """every source-parameter group coded explicitly (all custom flags set, index 0 where an index exists)"""
    b = Bits()
    b.uint(f.version)
    b.uint(0)
    b.uint(PROFILE[f.profile])
    b.uint(f.level)
    b.uint(f.base)
    b.bool(1)
    b.uint(f.width)
    b.uint(f.height)
    b.bool(1)
    b.uint(0)  # colour difference format 4:4:4
    b.bool(1)
    b.uint(0)  # progressive
    b.bool(1)
    b.uint(0)  # frame rate index 0: explicit numerator / denominator
    b.uint(frame_rate[0])
    b.uint(frame_rate[1])
    b.bool(1)
    b.uint(0)  # pixel aspect ratio index 0: explicit
    b.uint(aspect[0])
    b.uint(aspect[1])
    b.bool(1)  # clean area
    b.uint(f.width)
    b.uint(f.height)
    b.uint(0)
    b.uint(0)
    b.bool(1)
    b.uint(0)  # signal range index 0: explicit offsets / excursions
    b.uint(0)
    b.uint(255)
    b.uint(128)
    b.uint(255)
    b.bool(1)
    b.uint(0)  # colour spec index 0: explicit primaries, matrix, transfer function
    b.bool(1)
    b.uint(0)
    b.bool(1)
    b.uint(0)
    b.bool(1)
    b.uint(0)
    b.uint(1 if f.fields else 0)
    return b.tobytes()


def transform_parameters(b, f, profile):
    b.uint(f.wavelet)
    b.uint(f.depth)
    if f.version >= 3:
        who = getattr(f, "wavelet_ho", None)  # a different horizontal wavelet: asym_transform_index_flag set
        if who is None:
            b.bool(0)
        else:
            b.bool(1)
            b.uint(who)
        b.bool(0)
    b.uint(f.slices_x)
    b.uint(f.slices_y)
    if profile == "LD":
        b.uint(1)  # slice_bytes_numerator
        b.uint(1)  # slice_bytes_denominator   -> every slice is exactly one byte
    else:
        b.uint(0)  # slice_prefix_bytes
        b.uint(1)  # slice_size_scaler
    b.bool(0)  # custom_quant_matrix


def slice_bytes(profile, n):
    if profile == "LD":
        return b"\x00" * n  # qindex 0 (7 bits) + 1 data bit
    return b"\x00\x00\x00\x00" * n  # qindex, three zero length bytes


def picture_payload(f, profile, pn):
    b = Bits()
    b.bytes(u32(pn))
    transform_parameters(b, f, profile)
    b.align()
    b.bytes(slice_bytes(profile, f.nslices))
    return b.tobytes()


def fragment0_payload(f, profile, pn):
    b = Bits()
    b.bytes(u32(pn))
    b.bytes(u16(0))  # fragment_data_length (informative)
    b.bytes(u16(0))  # fragment_slice_count
    transform_parameters(b, f, profile)
    return b.tobytes()


def fragmentn_payload(f, profile, pn, count, x, y):
    b = Bits()
    b.bytes(u32(pn))
    b.bytes(u16(0))
    b.bytes(u16(count))
    b.bytes(u16(x))
    b.bytes(u16(y))
    b.bytes(slice_bytes(profile, count))
    return b.tobytes()


def assemble(units):
    """units: list of dict(code, payload, npo, ppo [, prefix]) where npo/ppo are 'ok' | 'zero' | 'bad' | int.

    Returns (bytes, offsets).  'ok' = the true distance; 'bad' = true distance + 1 (points one byte too far)."""
    out = bytearray()
    offsets = []
    prev_len = 0
    for i, u in enumerate(units):
        size = 13 + len(u["payload"])
        npo = u.get("npo", "ok")
        ppo = u.get("ppo", "ok")
        n = size if npo == "ok" else 0 if npo == "zero" else size + 1 if npo == "bad" else npo
        true_prev = prev_len if not u.get("first_in_sequence") else 0
        p = true_prev if ppo == "ok" else 0 if ppo == "zero" else true_prev + 1 if ppo == "bad" else ppo
        offsets.append(len(out))
        out += parse_info(u["code"], n, p, u.get("prefix", PREFIX))
        out += u["payload"]
        prev_len = size
    return bytes(out), offsets
