"""Rewrites the numeric columns of the table in DESIGN.md section 10.2 from evidence/Cnn.json (quick tier)."""
import json
import os
import re

V = os.path.join(os.path.dirname(__file__), "..")
p = os.path.join(V, "DESIGN.md")
s = open(p).read()
total = 0.0


def row(m):
    global total
    cid, modules = m.group(1), m.group(2)
    try:
        e = json.load(open(os.path.join(V, "evidence", cid + ".json")))
    except Exception:
        return m.group(0)
    c = e["coverage"]
    total += e.get("wall_s", 0)
    return "| %s | %s | %s | %s | %s | %d s |" % (cid, modules, c.get("states", "-"), c.get("transitions", "-"), c.get("traces_validated_against_impl", "-"), round(e.get("wall_s", 0)))


s2 = re.sub(r"^\| (C\d\d) \| ([^|]*) \| [^|]* \| [^|]* \| [^|]* \| [^|]* \|$", row, s, flags=re.M)
s2 = re.sub(r"All 28 quick commands together: [^;]*;", "All 28 quick commands together: %d min sequentially;" % round(total / 60), s2)
s2 = s2.replace("| behaviours executed against /repo | wall |", "| behaviours executed against /repo | wall of the whole check |")
open(p, "w").write(s2)
print("total %.0f s" % total)
