#!/bin/sh
# usage: harness/seedtest.sh <seeded/<id> dir> <check id> [more check ids]
# Applies seeded/<id>/patch.diff in a scratch worktree of /repo (never in /repo itself), runs the named
# checks against it (evidence/replay files go to a scratch dir, not to /verif/evidence) and prints each exit code.
# exit 0 iff every named check reported a VIOLATION (exit 1) on the mutated tree.
d="$1"; shift
id=$(basename "$d")
wt="/tmp/seedwt_$id.$$"
out="/tmp/seedout_$id.$$"
cd "$(dirname "$0")/.." || exit 2
git -C /repo worktree add --detach "$wt" HEAD -q || exit 2
trap 'git -C /repo worktree remove --force "$wt" >/dev/null 2>&1; rm -rf "$out"' EXIT
git -C "$wt" apply "$PWD/$d/patch.diff" || { echo "patch does not apply"; exit 2; }
mkdir -p "$out/evidence" "$out/replay"
rc=0
for c in "$@"; do
  VERIF_REPO="$wt" VERIF_EVIDENCE_DIR="$out/evidence" VERIF_REPLAY_DIR="$out/replay" ./check "$c" --tier "${VERIF_TIER:-quick}" > "$out/$c.log" 2>&1
  e=$?
  echo "seed=$id check=$c exit=$e $(grep -m1 '^VIOLATION' "$out/$c.log" | sed "s|$out|<scratch>|")"
  grep -m3 'signature:\|what:' "$out/$c.log" | cut -c1-300
  [ "$e" = "1" ] || rc=1
done
exit $rc
