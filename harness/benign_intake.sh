#!/bin/sh
# usage: harness/benign_intake.sh <Cnn> <k> [extra checks]
# A property-PRESERVING change produced by an independent sub-agent (/tmp/ben_<Cnn>_out/patch<k>.diff ...):
# confirm that the suite still passes and the demo passes on both trees, then run the property's check against the
# changed tree: it must stay silent (exit 0).  Stored under seeded/benign/<Cnn>_<k>/.
p="$1"; k="$2"; shift 2
src="/tmp/ben_${p}_out"; id="${p}_${k}"
cd "$(dirname "$0")/.." || exit 2
[ -f "$src/patch$k.diff" ] || { echo "no $src/patch$k.diff"; exit 2; }
dst="seeded/benign/$id"; mkdir -p "$dst"
cp "$src/patch$k.diff" "$dst/patch.diff"; cp "$src/demo$k.py" "$dst/demo.py" 2>/dev/null; cp "$src/meta$k.json" "$dst/agent_meta.json" 2>/dev/null
wt="/tmp/benwt_$id.$$"
git -C /repo worktree add --detach "$wt" HEAD -q || exit 2
trap 'git -C /repo worktree remove --force "$wt" >/dev/null 2>&1' EXIT
git -C "$wt" apply "$PWD/$dst/patch.diff" || { echo "seed=$id PATCH DOES NOT APPLY"; exit 2; }
d0=-; d1=-
if [ -f "$dst/demo.py" ]; then
(cd /tmp && PYTHONPATH=/repo timeout 900 /venv/bin/python "$OLDPWD/$dst/demo.py" >/dev/null 2>&1); d0=$?
(cd /tmp && PYTHONPATH="$wt" timeout 900 /venv/bin/python "$OLDPWD/$dst/demo.py" >/dev/null 2>&1); d1=$?
fi
suite=$(cd "$wt" && env -u VC2_CONFORMANCE_VERIF /venv/bin/python -m pytest -q -p no:cacheprovider -n 12 --timeout=900 2>&1 | tail -1)
out="/tmp/benout_$id.$$"; mkdir -p "$out/evidence" "$out/replay"
res=""
for c in $p "$@"; do
  VERIF_REPO="$wt" VERIF_EVIDENCE_DIR="$out/evidence" VERIF_REPLAY_DIR="$out/replay" ./check "$c" --tier quick > "$out/$c.log" 2>&1; e=$?
  sig=$(grep -m3 'signature:' "$out/$c.log" | sed 's/^ *signature: //' | tr '\n' ';')
  res="$res $c:exit=$e[$sig]"
  cp "$out/$c.log" "$dst/check_$c.log"
done
rm -rf "$out"
echo "benign=$id demo_unchanged=$d0 demo_changed=$d1 suite='$suite' checks:$res"
/venv/bin/python - "$dst" "$p" "$d0" "$d1" "$suite" "$res" <<'PY'
import json,sys,os
dst,p,d0,d1,suite,res=sys.argv[1:7]
am={}
try: am=json.load(open(os.path.join(dst,'agent_meta.json')))
except Exception: pass
json.dump({"property":p,"kind":"property-preserving change","summary":am.get("summary"),"files_changed":am.get("files_changed"),"observable_differences":am.get("observable_differences"),
 "confirmed_by_coordinator":{"demo_exit_on_repo":d0,"demo_exit_on_changed_tree":d1,"test_suite_with_change":suite,"checks_on_changed_tree":res.strip()}},open(os.path.join(dst,'meta.json'),'w'),indent=1)
PY
