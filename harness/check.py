"""Entry point:  python -m harness.check <Cnn> [--tier quick|thorough] [--replay path]

exit 0: property held on everything explored (known findings are printed, not alarms)
exit 1: VIOLATION property=<id> replay=<path>
exit 2: machinery failure (never a verdict)
"""
import argparse
import importlib
import json
import os
import sys
import traceback

from . import common


def main(argv=None):
    ap = argparse.ArgumentParser()
    ap.add_argument("pid")
    ap.add_argument("--tier", default=os.environ.get("VERIF_TIER") or "quick", choices=["quick", "thorough"])
    ap.add_argument("--replay", default=None)
    args = ap.parse_args(argv)
    seed = int(os.environ.get("VERIF_SEED") or 0)
    try:
        common.assert_repo()
        mod = importlib.import_module("harness.drivers.%s" % args.pid.lower())
        if args.replay:
            with open(args.replay) as f:
                rec = json.load(f)
            out = mod.replay(rec["case"])
            print(json.dumps(out, indent=1, default=repr))
            return 1 if out.get("violations") else 0
        ctx = common.Ctx(args.pid, args.tier, seed)
        mod.run(ctx)
        return common.finish(ctx)
    except Exception:
        traceback.print_exc()
        print("MACHINERY-FAILURE property=%s (exit 2: this is a broken check, not a verdict)" % args.pid)
        return 2


if __name__ == "__main__":
    sys.exit(main())
