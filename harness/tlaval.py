"""Parser for TLA+ values as printed by TLC (-dump files, simulate files, PrintT).

Mapping to Python:
  ints -> int, strings -> str, TRUE/FALSE -> bool, model values -> Sym(name) (a str subclass)
  <<a, b>> -> tuple, {a, b} -> frozenset (or SetList when unhashable), a..b -> frozenset(range)
  [k |-> v, ...] -> dict (str keys), (k :> v @@ ...) -> dict (arbitrary keys)
"""
import re

_TOK = re.compile(
    r"""\s*(?:
      (?P<int>-?\d+)
    | "(?P<str>(?:[^"\\]|\\.)*)"
    | (?P<op><<|>>|\|->|:>|@@|\.\.|[\[\]{}(),])
    | (?P<id>[A-Za-z_][A-Za-z0-9_!]*)
    )""",
    re.X,
)


class Sym(str):
    """A TLC model value / identifier."""

    def __repr__(self):
        return "Sym(%s)" % str.__repr__(self)


def tokenize(text):
    pos = 0
    n = len(text)
    out = []
    while pos < n:
        m = _TOK.match(text, pos)
        if m is None:
            if text[pos:].strip() == "":
                break
            raise ValueError("cannot tokenize TLA+ value at %r" % text[pos : pos + 40])
        pos = m.end()
        if m.group("int") is not None:
            out.append(("int", int(m.group("int"))))
        elif m.group("str") is not None:
            s = m.group("str")
            if "\\" in s:
                s = (
                    s.replace("\\\\", "\x00")
                    .replace('\\"', '"')
                    .replace("\\n", "\n")
                    .replace("\\t", "\t")
                    .replace("\x00", "\\")
                )
            out.append(("str", s))
        elif m.group("op") is not None:
            out.append(("op", m.group("op")))
        else:
            out.append(("id", m.group("id")))
    return out


def _freeze(x):
    if isinstance(x, dict):
        return tuple(sorted(((_freeze(k), _freeze(v)) for k, v in x.items()), key=repr))
    if isinstance(x, (list, tuple)):
        return tuple(_freeze(i) for i in x)
    if isinstance(x, (set, frozenset)):
        return frozenset(_freeze(i) for i in x)
    return x


class _P(object):
    def __init__(self, toks):
        self.t = toks
        self.i = 0

    def peek(self):
        return self.t[self.i] if self.i < len(self.t) else ("eof", None)

    def eat(self, kind=None, val=None):
        tok = self.peek()
        if (kind and tok[0] != kind) or (val is not None and tok[1] != val):
            raise ValueError("expected %s %s, got %r at token %d" % (kind, val, tok, self.i))
        self.i += 1
        return tok

    def value(self):
        k, v = self.peek()
        if k == "int":
            self.i += 1
            if self.peek() == ("op", ".."):
                self.i += 1
                hi = self.eat("int")[1]
                return frozenset(range(v, hi + 1))
            return v
        if k == "str":
            self.i += 1
            return v
        if k == "id":
            self.i += 1
            if v == "TRUE":
                return True
            if v == "FALSE":
                return False
            return Sym(v)
        if k == "op":
            if v == "<<":
                self.i += 1
                items = self.items(">>")
                return tuple(items)
            if v == "{":
                self.i += 1
                items = self.items("}")
                try:
                    return frozenset(items)
                except TypeError:
                    return frozenset(_freeze(i) for i in items)
            if v == "[":
                self.i += 1
                d = {}
                if self.peek() == ("op", "]"):
                    self.i += 1
                    return d
                while True:
                    key = self.eat("id")[1]
                    self.eat("op", "|->")
                    d[str(key)] = self.value()
                    if self.peek() == ("op", ","):
                        self.i += 1
                        continue
                    self.eat("op", "]")
                    return d
            if v == "(":
                self.i += 1
                d = {}
                while True:
                    key = self.value()
                    self.eat("op", ":>")
                    val = self.value()
                    try:
                        d[key] = val
                    except TypeError:
                        d[_freeze(key)] = val
                    if self.peek() == ("op", "@@"):
                        self.i += 1
                        continue
                    self.eat("op", ")")
                    return d
        raise ValueError("unexpected token %r at %d" % ((k, v), self.i))

    def items(self, close):
        out = []
        if self.peek() == ("op", close):
            self.i += 1
            return out
        while True:
            out.append(self.value())
            if self.peek() == ("op", ","):
                self.i += 1
                continue
            self.eat("op", close)
            return out


def parse(text):
    p = _P(tokenize(text))
    v = p.value()
    if p.peek()[0] != "eof":
        raise ValueError("trailing tokens after TLA+ value: %r" % (p.peek(),))
    return v


_STATE_HDR = re.compile(r"^State \d+:.*$|^STATE_\d+ ==.*$", re.M)
_TRAILER = re.compile(r"^\\\*.*$|^={4,}\s*$", re.M)
_VAR = re.compile(r"^/\\ ([A-Za-z_][A-Za-z0-9_]*) = ", re.M)


def parse_state_block(block):
    """block: text of one state '/\\ v = val\\n/\\ w = val2 ...' -> dict var -> value"""
    st = {}
    # -simulate trace files interleave "\* <Action line ...>" comment lines and end with a ==== line
    cut = _TRAILER.search(block)
    if cut:
        block = block[: cut.start()]
    ms = list(_VAR.finditer(block))
    for j, m in enumerate(ms):
        end = ms[j + 1].start() if j + 1 < len(ms) else len(block)
        st[m.group(1)] = parse(block[m.end() : end])
    return st


def iter_dump(path, only_vars=None):
    """Yield one dict per state of a TLC -dump file."""
    with open(path) as f:
        text = f.read()
    hdrs = list(_STATE_HDR.finditer(text))
    for j, h in enumerate(hdrs):
        end = hdrs[j + 1].start() if j + 1 < len(hdrs) else len(text)
        yield parse_state_block(text[h.end() : end])


def to_jsonable(v):
    if isinstance(v, dict):
        return {str(k): to_jsonable(x) for k, x in v.items()}
    if isinstance(v, (tuple, list)):
        return [to_jsonable(x) for x in v]
    if isinstance(v, (set, frozenset)):
        return sorted((to_jsonable(x) for x in v), key=repr)
    if isinstance(v, Sym):
        return str(v)
    return v


def selftest():
    v = parse('[a |-> 1, b |-> {1, 2}, f |-> (1 :> "x" @@ 2 :> "y\\"z"), t |-> <<TRUE, -1, <<>>>>, r |-> 1..3, m |-> mv1, e |-> {}]')
    assert v == {
        "a": 1,
        "b": frozenset({1, 2}),
        "f": {1: "x", 2: 'y"z'},
        "t": (True, -1, ()),
        "r": frozenset({1, 2, 3}),
        "m": "mv1",
        "e": frozenset(),
    }, v
    st = parse_state_block('/\\ x = << [a |-> 1],\n   [a |-> 2] >>\n/\\ y = "q"\n')
    assert st == {"x": ({"a": 1}, {"a": 2}), "y": "q"}, st
    return True


if __name__ == "__main__":
    selftest()
    print("tlaval selftest ok")
