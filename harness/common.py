"""Shared machinery: context (tier/seed), evidence, known findings, replay files, parallel map."""
import json
import multiprocessing
import os
import sys
import time
import traceback

VERIF = os.path.dirname(os.path.dirname(os.path.abspath(__file__)))
REPO = os.environ.get("VERIF_REPO", "/repo")
EVIDENCE_DIR = os.environ.get("VERIF_EVIDENCE_DIR") or os.path.join(VERIF, "evidence")
REPLAY_DIR = os.environ.get("VERIF_REPLAY_DIR") or os.path.join(VERIF, "replay")
FINDINGS_FILE = os.path.join(VERIF, "known_findings.json")
GUARD = "VC2_CONFORMANCE_VERIF"


def assert_repo():
    """The checks must exercise /repo's working tree, not an installed copy."""
    import vc2_conformance

    here = os.path.realpath(vc2_conformance.__file__)
    if not here.startswith(os.path.realpath(REPO) + os.sep):
        raise RuntimeError("vc2_conformance imported from %s, not from %s" % (here, REPO))


class Ctx(object):
    def __init__(self, pid, tier, seed):
        self.pid = pid
        self.tier = tier
        self.seed = seed
        self.t0 = time.time()
        self.violations = []  # list of dict(signature, what, case)
        self.coverage = {}
        self.assumptions = []
        self.tlc_runs = []
        self.level = "model_checking"

    @property
    def quick(self):
        return self.tier == "quick"

    def pick(self, quick, thorough):
        return quick if self.tier == "quick" else thorough

    def add_tlc(self, res, name=None, constants=None):
        d = res.summary()
        if name:
            d["name"] = name
        if constants:
            d["constants"] = constants
        self.tlc_runs.append(d)
        self.coverage["states"] = self.coverage.get("states", 0) + res.distinct
        self.coverage["transitions"] = self.coverage.get("transitions", 0) + res.generated

    def violation(self, signature, what, case):
        """Record that the property statement was falsified on `case` (JSON-able)."""
        self.violations.append({"signature": signature, "what": what, "case": case})

    def elapsed(self):
        return time.time() - self.t0


def load_findings():
    if not os.path.exists(FINDINGS_FILE):
        return []
    with open(FINDINGS_FILE) as f:
        return json.load(f).get("findings", [])


def _jsonable(x):
    try:
        json.dumps(x)
        return x
    except (TypeError, ValueError):
        from . import tlaval

        try:
            y = tlaval.to_jsonable(x)
            json.dumps(y)
            return y
        except Exception:
            return repr(x)


def finish(ctx):
    """Write evidence, print KNOWN-FINDING / VIOLATION lines, return exit code."""
    known = [f for f in load_findings() if f.get("property") == ctx.pid and f.get("status") == "known"]
    fresh = []
    matched = {}
    for v in ctx.violations:
        hit = None
        for f in known:
            if f["signature"] == v["signature"]:
                hit = f
                break
        if hit is None:
            fresh.append(v)
        else:
            matched.setdefault(hit["signature"], []).append(v)
    for f in known:
        if f["signature"] in matched:
            print("KNOWN-FINDING: property=%s %s (%d cases this run; signature %s)" % (ctx.pid, f["what"], len(matched[f["signature"]]), f["signature"]))
    cov = dict(ctx.coverage)
    cov.setdefault("samples", [])
    cov["samples"] = [_jsonable(s) for s in cov["samples"]][:12]
    if ctx.tlc_runs:
        cov["tlc_runs"] = ctx.tlc_runs
    cov["known_findings_matched"] = {k: len(v) for k, v in matched.items()}
    ev = {
        "property_id": ctx.pid,
        "tier": ctx.tier,
        "seed": ctx.seed,
        "level": ctx.level,
        "coverage": cov,
        "assumptions": ctx.assumptions,
        "wall_s": round(ctx.elapsed(), 2),
        "violations": len(fresh),
    }
    os.makedirs(EVIDENCE_DIR, exist_ok=True)
    tmp = os.path.join(EVIDENCE_DIR, ctx.pid + ".json.tmp")
    with open(tmp, "w") as f:
        json.dump(ev, f, indent=1, sort_keys=True, default=repr)
        f.write("\n")
    os.replace(tmp, os.path.join(EVIDENCE_DIR, ctx.pid + ".json"))
    if fresh:
        d = os.path.join(REPLAY_DIR, ctx.pid)
        os.makedirs(d, exist_ok=True)
        seen = set()
        n = 0
        for v in fresh:
            if v["signature"] in seen:
                continue
            seen.add(v["signature"])
            path = os.path.join(d, "%d.json" % n)
            n += 1
            with open(path, "w") as f:
                json.dump({"property": ctx.pid, "signature": v["signature"], "what": v["what"], "case": _jsonable(v["case"])}, f, indent=1, default=repr)
            print("VIOLATION property=%s replay=%s" % (ctx.pid, path))
            print("  signature: %s" % v["signature"])
            print("  what: %s" % str(v["what"])[:600])
            if n >= 25:
                break
        print("%s: %d violation(s) (%d distinct signatures)" % (ctx.pid, len(fresh), len(set(v["signature"] for v in fresh))))
        return 1
    print("%s: held (%s tier, seed %d, %.1fs)" % (ctx.pid, ctx.tier, ctx.seed, ctx.elapsed()))
    return 0


WORKER_MEMORY_LIMIT = int(os.environ.get("VERIF_WORKER_MEM_GB", "6")) << 30


def _init_worker():
    sys.setrecursionlimit(10000)
    # A mutated stream can declare an enormous picture: cap every pool worker's address space so that the
    # allocation fails with MemoryError inside the worker instead of the kernel's OOM killer shooting workers
    # (which would leave the pool waiting for ever).
    try:
        import resource

        resource.setrlimit(resource.RLIMIT_AS, (WORKER_MEMORY_LIMIT, WORKER_MEMORY_LIMIT))
    except Exception:  # noqa
        pass


def pmap(fn, items, procs=None, chunksize=None):
    """Parallel map preserving order; fn must be a module-level function.  A worker that dies (killed, crashed
    interpreter) raises RuntimeError here -- a machinery failure (exit 2) -- instead of hanging."""
    from concurrent.futures import ProcessPoolExecutor
    from concurrent.futures.process import BrokenProcessPool

    items = list(items)
    procs = procs or min(16, os.cpu_count() or 1)
    if len(items) < 8 or procs == 1:
        return [fn(i) for i in items]
    if chunksize is None:
        chunksize = max(1, min(2000, len(items) // (procs * 8)))
    ctx = multiprocessing.get_context("fork")
    try:
        with ProcessPoolExecutor(max_workers=procs, mp_context=ctx, initializer=_init_worker) as ex:
            return list(ex.map(fn, items, chunksize=chunksize))
    except BrokenProcessPool as e:
        raise RuntimeError("a pool worker died while running %s (out of memory / killed): %s" % (getattr(fn, "__name__", fn), e))


def exc_signature(e, tb=None):
    """exception type : innermost vc2_conformance frame (file:function)"""
    tb = tb or e.__traceback__
    inner = None
    for fr in traceback.extract_tb(tb):
        if "/vc2_conformance/" in fr.filename:
            inner = "%s:%s" % (fr.filename.split("/vc2_conformance/")[-1], fr.name)
    return "%s@%s" % (type(e).__name__, inner or "?")
