"""Shared by the validator-family drivers (C01, C02, C10, C25, C26): concretisation of abstract
Validator.tla histories into bytes (via the independent writer vc2bytes), running the real validator,
permissive level tables, and dump handling."""
import io
import os
import re

from . import vc2bytes as vb
from . import tlc, tlaval, common

S = 2
LEVEL_FOR_PAT = {"any": 0, "nomix": 1, "altld": 64, "althq": 66}
TWO32 = 1 << 32

ALL_CFGS = [
    {"prof": p, "ver": v, "pat": pat, "fields": f, "sx": (1 if (i + j + v) % 2 else 2)}
    for i, p in enumerate(("LD", "HQ"))
    for v in (1, 2, 3)
    for j, pat in enumerate(("any", "nomix", "altld", "althq"))
    for f in (False, True)
]
# every value of every dimension + the interactions known to matter (fields x fragments, no-mix x fragments,
# version exception, alternating patterns with their profile)
QUICK_CFGS = [
    {"prof": "HQ", "ver": 3, "pat": "nomix", "fields": True, "sx": 2},
    {"prof": "LD", "ver": 3, "pat": "any", "fields": False, "sx": 1},
    {"prof": "HQ", "ver": 2, "pat": "althq", "fields": False, "sx": 2},
    {"prof": "LD", "ver": 1, "pat": "altld", "fields": True, "sx": 1},
    {"prof": "HQ", "ver": 1, "pat": "any", "fields": False, "sx": 2},
    {"prof": "LD", "ver": 2, "pat": "nomix", "fields": False, "sx": 2},
]

_installed = False


def install_permissive_levels():
    """Levels 1, 64 and 66 keep the repo's data-unit ordering patterns (LEVEL_SEQUENCE_RESTRICTIONS is not
    touched) but their value tables are replaced by an 'any value' column so that the tiny test format is
    admitted -- the same in-process swap tests/alternative_level_constraints.py performs."""
    global _installed
    if _installed:
        return
    from vc2_conformance.level_constraints import LEVEL_CONSTRAINTS
    from vc2_conformance.constraint_table import ValueSet, AnyValue

    keys = list(LEVEL_CONSTRAINTS[0].keys())
    keep = [c for c in LEVEL_CONSTRAINTS if not any(l in c["level"] for l in (1, 64, 66))]
    new = []
    for lvl in (1, 64, 66):
        col = type(LEVEL_CONSTRAINTS[0])()
        for k in keys:
            col[k] = AnyValue()
        col["level"] = ValueSet(lvl)
        new.append(col)
    LEVEL_CONSTRAINTS[:] = keep + new
    _installed = True


def cfg_tla(c):
    return '[prof |-> "%s", ver |-> %d, pat |-> "%s", fields |-> %s, sx |-> %d]' % (c["prof"], c["ver"], c["pat"], "TRUE" if c["fields"] else "FALSE", c.get("sx", 2))


def write_mc_module(cfgs, name="ValidatorMC", base="Validator"):
    wd = tlc.mkscratch("mc")
    path = os.path.join(wd, name + ".tla")
    with open(path, "w") as f:
        f.write("---- MODULE %s ----\nEXTENDS %s\nMCCfgs == {%s}\n====\n" % (name, base, ", ".join(cfg_tla(c) for c in cfgs)))
    return path


def concretise(cfg, hist, S=S):
    """abstract history (list of steps with key 'u') -> list of vc2bytes unit dicts"""
    sx = cfg.get("sx", S)
    f = vb.Fmt(profile=cfg["prof"], version=cfg["ver"], level=LEVEL_FOR_PAT[cfg["pat"]], fields=bool(cfg["fields"]), slices_x=sx, slices_y=S // sx)
    # a differing repeated header differs EARLY (frame width: variant 1) in half of the histories that have one and
    # ONLY IN ITS LAST BITS, at the same length (variant 2), in the other half -- there the header layout is chosen
    # so that the header ends r = 0..7 bits into its last byte (choice by a hash of the history: replays agree)
    diff_variant = 1
    us = [(st["u"] if "u" in st else st) for st in hist]
    if any(x["k"] == "SH" and not x["same"] for x in us):
        import json, zlib

        h = zlib.crc32(json.dumps(us, sort_keys=True, default=str).encode())
        if h % 2:
            diff_variant = 2
            f.tail_residue = (h // 2) % 8
    units = []
    c = None
    recv = 0
    first = True
    for step in hist:
        u = step["u"] if "u" in step else step
        k = u["k"]
        d = {"npo": u["npo"], "ppo": u["ppo"], "first_in_sequence": first}
        first = False
        if u["npo"] == "inside":
            d["npo"] = 5
        if k == "SH":
            d["code"] = vb.PC_SH
            d["payload"] = vb.sequence_header_payload(f, 0 if u["same"] else diff_variant)
        elif k in ("PIC", "F0"):
            p = u["pn"]
            if p == "a0":
                c = 0
            elif p == "a1":
                c = 1
            elif p == "am2":
                c = TWO32 - 2
            elif p == "am1":
                c = TWO32 - 1
            elif p == "next":
                c = (c + 1) % TWO32
            elif p == "skip":
                c = (c + 2) % TWO32
            if k == "PIC":
                d["code"] = vb.PC_LD_PIC if u["prof"] == "LD" else vb.PC_HQ_PIC
                d["payload"] = vb.picture_payload(f, u["prof"], c)
            else:
                d["code"] = vb.PC_LD_FRAG if u["prof"] == "LD" else vb.PC_HQ_FRAG
                d["payload"] = vb.fragment0_payload(f, u["prof"], c)
                recv = 0
        elif k == "FN":
            base = c if c is not None else 0
            pn = base if u["pnsame"] else (base + 1) % TWO32
            x, y = recv % f.slices_x, recv // f.slices_x
            if u["off"] == "bad":
                x += 1
            elif u["off"] == "alias":
                x, y = recv, 0
            d["code"] = vb.PC_LD_FRAG if u["prof"] == "LD" else vb.PC_HQ_FRAG
            d["payload"] = vb.fragmentn_payload(f, u["prof"], pn, u["cnt"], x, y)
            recv += u["cnt"]
        elif k in ("PAD", "AUX"):
            d["code"] = vb.PC_PAD if k == "PAD" else vb.PC_AUX
            d["payload"] = b"\x00\x01\xff"
        elif k == "EOS":
            d["code"] = vb.PC_EOS
            d["payload"] = b""
        elif k == "BADPFX":
            d["code"] = vb.PC_PAD
            d["payload"] = b""
            d["prefix"] = b"BBCE"
        elif k == "BADCODE":
            d["code"] = 0x11
            d["payload"] = b""
        else:
            raise ValueError(k)
        units.append(d)
    return units


def history_bytes(cfg, hist, S=S):
    data, offsets = vb.assemble(concretise(cfg, hist, S))
    return data


def run_validator(data, want_pictures=False):
    """Run the real validator in-process.  Returns dict(outcome='accept'|'reject'|'crash', exc, sig, pics)."""
    from vc2_conformance.pseudocode.state import State
    from vc2_conformance.decoder import init_io, parse_stream, ConformanceError

    pics = []

    def cb(pic, vp, pcm):
        pics.append(pic["pic_num"] if not want_pictures else (pic, vp, pcm))

    st = State(_output_picture_callback=cb)
    init_io(st, io.BytesIO(data))
    try:
        parse_stream(st)
        return {"outcome": "accept", "exc": None, "sig": None, "pics": pics, "error": None}
    except ConformanceError as e:
        return {"outcome": "reject", "exc": type(e).__name__, "sig": None, "pics": pics, "error": e, "state": st}
    except Exception as e:  # noqa
        return {"outcome": "crash", "exc": type(e).__name__, "sig": common.exc_signature(e), "pics": pics, "error": e, "msg": str(e)[:200]}


_STATE_SPLIT = re.compile(r"^State \d+:\s*$", re.M)


def split_dump(path, nchunks=64):
    """Split a -dump file into text chunks on state boundaries (for parallel parsing)."""
    with open(path) as f:
        text = f.read()
    idx = [m.start() for m in _STATE_SPLIT.finditer(text)]
    if not idx:
        return []
    step = max(1, len(idx) // nchunks)
    cuts = idx[::step] + [len(text)]
    return [text[cuts[i] : cuts[i + 1]] for i in range(len(cuts) - 1)]


def parse_chunk(text):
    out = []
    hdrs = list(_STATE_SPLIT.finditer(text))
    for j, h in enumerate(hdrs):
        end = hdrs[j + 1].start() if j + 1 < len(hdrs) else len(text)
        out.append(tlaval.to_jsonable(tlaval.parse_state_block(text[h.end() : end])))
    return out


# ---------------------------------------------------------------------------------- resource guard
class OutOfScope(BaseException):
    """the stream declares sizes above the stated bound: counted, not judged"""


class VerifTimeout(BaseException):
    pass


BOUNDS = {"pixels": 64 * 64, "side": 512, "depth": 4, "slices": 256, "excursion": 1 << 16, "prefix": 1024, "scaler": 1 << 16}
_guard_installed = False


def _check_vp(vp):
    if vp is None:
        return
    w, h = vp.get("frame_width", 0), vp.get("frame_height", 0)
    if w * h > BOUNDS["pixels"] or w > BOUNDS["side"] or h > BOUNDS["side"]:
        raise OutOfScope("frame %dx%d" % (w, h))
    for k in ("luma_excursion", "color_diff_excursion", "luma_offset", "color_diff_offset"):
        if vp.get(k, 0) > BOUNDS["excursion"]:
            raise OutOfScope("%s=%d" % (k, vp[k]))


def _check_tp(state):
    if state.get("dwt_depth", 0) > BOUNDS["depth"] or state.get("dwt_depth_ho", 0) > BOUNDS["depth"]:
        raise OutOfScope("depth")
    if state.get("slices_x", 0) * state.get("slices_y", 0) > BOUNDS["slices"]:
        raise OutOfScope("slices")
    if state.get("slice_prefix_bytes", 0) > BOUNDS["prefix"] or state.get("slice_size_scaler", 0) > BOUNDS["scaler"]:
        raise OutOfScope("slice prefix/scaler")
    if state.get("slice_bytes_numerator", 0) > (1 << 20):
        raise OutOfScope("slice bytes")


def install_validator_guard():
    """In-process, add-only wrappers (no change to /repo) around the validator's sequence_header and
    transform_parameters that abort, as out of scope, streams declaring huge pictures/depths/slice counts."""
    global _guard_installed
    if _guard_installed:
        return
    from vc2_conformance.decoder import stream, picture_syntax, fragment_syntax

    real_sh = stream.sequence_header

    def sequence_header(state):
        vp = real_sh(state)
        _check_vp(vp)
        return vp

    stream.sequence_header = sequence_header
    real_sp = picture_syntax.slice_parameters

    def slice_parameters(state):
        _check_tp(state)  # depths are known before slice_parameters is read
        r = real_sp(state)
        _check_tp(state)
        return r

    picture_syntax.slice_parameters = slice_parameters
    _guard_installed = True


def guarded_validate(data, timeout=5.0, want_pictures=False):
    """run_validator under the resource guard.  outcome in accept|reject|crash|oos|timeout"""
    import signal

    install_validator_guard()

    def on_alarm(signum, frame):
        raise VerifTimeout()

    old = signal.signal(signal.SIGPROF, on_alarm)
    signal.setitimer(signal.ITIMER_PROF, timeout)
    try:
        return run_validator(data, want_pictures)
    except OutOfScope as e:
        return {"outcome": "oos", "exc": str(e), "sig": None, "pics": [], "error": None}
    except VerifTimeout:
        return {"outcome": "timeout", "exc": None, "sig": None, "pics": [], "error": None}
    finally:
        signal.setitimer(signal.ITIMER_PROF, 0)
        signal.signal(signal.SIGPROF, old)


def mutant_jobs(ctx, per_base_quick, per_base_thorough):
    """[(base_index, seed)] deterministic in ctx.seed"""
    from . import corpus

    n = len(corpus.base_streams())
    per = per_base_quick if ctx.quick else per_base_thorough
    return [(i, ctx.seed * 7919 + i * 1000003 + j) for i in range(n) for j in range(per)]


def make_mutant(job):
    import random
    from . import corpus

    i, seed = job
    name, data = corpus.base_streams()[i]
    rnd = random.Random(seed)
    if seed % 50 == 0:
        return name, "identity", data
    kind, m = corpus.mutate(data, rnd)
    return name, kind, m


_viewer_guard = False


def install_viewer_guard():
    """Same resource guard for the deserialiser code path used by the bitstream viewer."""
    global _viewer_guard
    if _viewer_guard:
        return
    from vc2_conformance.bitstream import vc2

    real_sh = vc2.sequence_header

    def sequence_header(serdes, state):
        vp = real_sh(serdes, state)
        _check_vp(vp)
        return vp

    vc2.sequence_header = sequence_header
    real_sp = vc2.slice_parameters

    def slice_parameters(serdes, state):
        _check_tp(state)
        r = real_sp(serdes, state)
        _check_tp(state)
        return r

    vc2.slice_parameters = slice_parameters
    _viewer_guard = True


def with_timeout(fn, timeout=5.0):
    """Run fn() under a SIGALRM timeout; returns ('ok', value) | ('oos', msg) | ('timeout', None)."""
    import signal

    def on_alarm(signum, frame):
        raise VerifTimeout()

    old = signal.signal(signal.SIGPROF, on_alarm)
    signal.setitimer(signal.ITIMER_PROF, timeout)
    try:
        return "ok", fn()
    except OutOfScope as e:
        return "oos", str(e)
    except VerifTimeout:
        return "timeout", None
    finally:
        signal.setitimer(signal.ITIMER_PROF, 0)
        signal.signal(signal.SIGPROF, old)


# ---------------------------------------------------------------------------------- trace recorder
def _pair(n):
    n &= 0xFFFFFFFF
    return [n >> 16, n & 0xFFFF]


class Recorder(object):
    """In-process, add-only observation of one validator run (no change to /repo): wraps the module-level
    functions the decoder looks up through its module globals and logs one event per call, after it returned
    or raised.  parse_info and fragment-header fields are read from the raw bytes by the harness itself."""

    def __init__(self):
        self.events = []
        self.data = b""
        self.first_sh = None
        self.last_pi = 0

    def _aligned(self, state):
        from vc2_conformance.decoder import tell

        byte, bit = tell(state)
        return byte if bit == 7 else byte + 1

    def install(self):
        from vc2_conformance.decoder import stream, picture_syntax, fragment_syntax

        rec = self
        self._saved = (stream.parse_sequence, stream.parse_info, stream.sequence_header, picture_syntax.picture_header, stream.fragment_parse)
        real_seq, real_pi, real_sh, real_ph, real_fp = self._saved

        def parse_sequence(state):
            rec.events.append({"ev": "seq"})
            rec.first_sh = None
            return real_seq(state)

        def parse_info(state):
            off = rec._aligned(state)
            rec.last_pi = off
            h = rec.data[off : off + 13]
            ev = {"ev": "pi", "off": off, "have": len(h) == 13, "pfx_ok": h[:4] == b"BBCD", "code": h[4] if len(h) > 4 else -1, "npo": _pair(int.from_bytes(h[5:9], "big")) if len(h) >= 9 else [0, 0], "ppo": _pair(int.from_bytes(h[9:13], "big")) if len(h) == 13 else [0, 0], "exc": ""}
            try:
                return real_pi(state)
            except Exception as e:  # noqa
                ev["exc"] = type(e).__name__
                raise
            finally:
                rec.events.append(ev)

        def sequence_header(state):
            start = rec._aligned(state)
            ev = {"ev": "sh", "ver": 0, "prof": -1, "level": 0, "fields": False, "same": True, "exc": ""}
            try:
                r = real_sh(state)
                end = rec._aligned(state)
                raw = rec.data[start:end]
                if rec.first_sh is None:
                    rec.first_sh = raw
                ev.update(ver=min(int(state["major_version"]), 1000), prof=min(int(state["profile"]), 1000), level=min(int(state["level"]), 1000), fields=int(state["picture_coding_mode"]) == 1, same=(raw == rec.first_sh))
                return r
            except Exception as e:  # noqa
                ev["exc"] = type(e).__name__
                raise
            finally:
                rec.events.append(ev)

        def picture_header(state):
            ev = {"ev": "pic", "pn": [0, 0], "exc": ""}
            try:
                return real_ph(state)
            except Exception as e:  # noqa
                ev["exc"] = type(e).__name__
                raise
            finally:
                ev["pn"] = _pair(int(state.get("picture_number", 0)))
                rec.events.append(ev)

        def fragment_parse(state):
            off = rec.last_pi + 13
            h = rec.data[off : off + 12]
            cnt = int.from_bytes(h[6:8], "big") if len(h) >= 8 else 0
            ev = {"ev": "frag", "pn": _pair(int.from_bytes(h[0:4], "big")) if len(h) >= 4 else [0, 0], "cnt": cnt, "x": int.from_bytes(h[8:10], "big") if cnt and len(h) >= 10 else 0, "y": int.from_bytes(h[10:12], "big") if cnt and len(h) >= 12 else 0, "sx": 0, "sy": 0, "exc": ""}
            try:
                return real_fp(state)
            except Exception as e:  # noqa
                ev["exc"] = type(e).__name__
                raise
            finally:
                ev["sx"] = min(int(state.get("slices_x", 0)), 30000)
                ev["sy"] = min(int(state.get("slices_y", 0)), 30000)
                if len(h) >= 8:
                    rec.events.append(ev)

        stream.parse_sequence = parse_sequence
        stream.parse_info = parse_info
        stream.sequence_header = sequence_header
        picture_syntax.picture_header = picture_header
        stream.fragment_parse = fragment_parse

    def uninstall(self):
        from vc2_conformance.decoder import stream, picture_syntax

        stream.parse_sequence, stream.parse_info, stream.sequence_header, picture_syntax.picture_header, stream.fragment_parse = self._saved

    def record(self, data, tid, meta=None):
        """Run the validator on `data`; returns (events incl. begin/end, outcome dict)."""
        self.events = []
        self.data = data
        self.first_sh = None
        r = guarded_validate(data)
        out = [dict({"ev": "begin"}, **(meta or {}))] + self.events + [{"ev": "end", "outcome": r["outcome"], "exc": r["exc"] or ""}]
        for e in out:
            e["tid"] = tid
        return out, r
