#!/bin/sh
# Offline setup: syntax/semantic check of every TLA+ module, self-test of the TLA+ value parser,
# regeneration of the generated tables module from the installed vc2_data_tables package.
cd "$(dirname "$0")" || exit 2
export PYTHONPATH="${VERIF_REPO:-/repo}:$PWD"
export PYTHONDONTWRITEBYTECODE=1
/venv/bin/python -m harness.setup || exit 1
