------------------------- MODULE SliceGeometryTrace -------------------------
(* Validation of numbers recorded from vc2_conformance/pseudocode/slice_sizes.py (C13).    *)
(* One log line per configuration:                                                         *)
(*   ev = "geom":  the eight state entries, for each component (Y, C1, C2) the recorded    *)
(*                 subband_width/height per level and the recorded slice_left/right/top/   *)
(*                 bottom per level and slice index, and slices_have_same_dimensions; also *)
(*                 the flag as reported for a codec configuration of these sizes           *)
(*                 (cf_frames / cf_fields, codec_features_to_trivial_level_constraints).   *)
(*   ev = "bytes": slices_x, slices_y, numerator, denominator and slice_bytes(sx, sy) for   *)
(*                 every slice in raster order (small integers).                           *)
(*   ev = "bytesbig": the same with every number as base-2^15 limbs (BigNat).              *)
(* The alarm clauses are the C13 predicates of SliceGeometryOps evaluated on the RECORDED   *)
(* numbers; "SpecFormula" (recorded numbers differ from the design's formulas) is logged    *)
(* but never an alarm (rule R1).  Verdicts are total: every line gets one.                  *)
EXTENDS SliceGeometryOps, BigNat, Json, IOUtils, TLC, TLCExt

Log == ndJsonDeserialize(IOEnv.TRACE_FILE)

VARIABLES l, bad
tvars == <<l, bad>>

ByLevel(s, d, dho) == [k \in Levels(d, dho) |-> s[k + 1]]     \* JSON arrays are 1-based

CompW(e, c) == IF c.c = "Y" THEN e.lw ELSE e.cw
CompH(e, c) == IF c.c = "Y" THEN e.lh ELSE e.ch

(* c.pw, c.ph: the recorded extents of the padded picture (level dwt_depth_ho+dwt_depth+1,   *)
(* what dwt_pad_addition pads to)                                                          *)
DimsOk(e, c) == /\ DimsMatchPadded(ByLevel(c.sw, e.d, e.dho), ByLevel(c.sh, e.d, e.dho),
                                   CompW(e, c), CompH(e, c), e.d, e.dho)
                /\ c.pw = c.sw[1] * Pow2(e.d + e.dho)
                /\ c.ph = c.sh[1] * Pow2(e.d)

PartXOk(e, c, k) == Len(c.L[k + 1]) = e.sx /\ Partition(c.L[k + 1], c.R[k + 1], c.sw[k + 1])
PartYOk(e, c, k) == Len(c.T[k + 1]) = e.sy /\ Partition(c.T[k + 1], c.B[k + 1], c.sh[k + 1])

RecordedAllSame(e) ==
  \A i \in 1..Len(e.comps) : \A k \in Levels(e.d, e.dho) :
    LET c == e.comps[i] IN AllEqual(c.L[k + 1], c.R[k + 1]) /\ AllEqual(c.T[k + 1], c.B[k + 1])

(* small enough for the design's formulas to be evaluated in 32-bit arithmetic *)
Small(e) == /\ e.lw <= 1048576 /\ e.lh <= 1048576 /\ e.cw <= 1048576 /\ e.ch <= 1048576
            /\ e.sx <= 1024 /\ e.sy <= 1024

SpecAgrees(e) ==
  /\ \A i \in 1..Len(e.comps) : \A k \in Levels(e.d, e.dho) :
       LET c == e.comps[i]
           w == SubbandWidth(CompW(e, c), e.d, e.dho, k)
           h == SubbandHeight(CompH(e, c), e.d, e.dho, k) IN
       /\ c.sw[k + 1] = w /\ c.sh[k + 1] = h
       /\ c.L[k + 1] = LoSeq(w, e.sx) /\ c.R[k + 1] = HiSeq(w, e.sx)
       /\ c.T[k + 1] = LoSeq(h, e.sy) /\ c.B[k + 1] = HiSeq(h, e.sy)
  /\ e.flag = SameDimsFlag(e.lw, e.lh, e.cw, e.ch, e.d, e.dho, e.sx, e.sy)
  /\ \A i \in 1..Len(e.comps) :
       LET c == e.comps[i] IN
       /\ c.pw = SubbandWidth(CompW(e, c), e.d, e.dho, e.d + e.dho + 1)
       /\ c.ph = SubbandHeight(CompH(e, c), e.d, e.dho, e.d + e.dho + 1)

Verdict(c, a, at) == [c |-> c, alarm |-> a, at |-> at]

GeomClause(e) ==
  LET n  == Len(e.comps)
      lv == Levels(e.d, e.dho)
      badDims == {i \in 1..n : ~DimsOk(e, e.comps[i])}
      badX == {<<i, k>> \in (1..n) \X lv : ~PartXOk(e, e.comps[i], k)}
      badY == {<<i, k>> \in (1..n) \X lv : ~PartYOk(e, e.comps[i], k)} IN
  IF badDims # {} THEN Verdict("SubbandDims", TRUE, <<CHOOSE i \in badDims : TRUE, 0>>)
  ELSE IF badX # {} THEN Verdict("PartitionX", TRUE, CHOOSE p \in badX : TRUE)
  ELSE IF badY # {} THEN Verdict("PartitionY", TRUE, CHOOSE p \in badY : TRUE)
  ELSE IF e.flag # RecordedAllSame(e) THEN Verdict("SameDimsFlag", TRUE, <<0, 0>>)
  \* the flag as reported for a codec configuration with these component sizes (pictures are frames / fields);
  \* -1 = the sizes are not those of a video format
  ELSE IF e.cf_frames # -1 /\ (e.cf_frames = 1) # RecordedAllSame(e) THEN Verdict("ReportedFlagFrames", TRUE, <<0, 0>>)
  ELSE IF e.cf_fields # -1 /\ (e.cf_fields = 1) # RecordedAllSame(e) THEN Verdict("ReportedFlagFields", TRUE, <<0, 0>>)
  ELSE IF Small(e) /\ ~SpecAgrees(e) THEN Verdict("SpecFormula", FALSE, <<0, 0>>)
  ELSE Verdict("ok", FALSE, <<0, 0>>)

BytesClause(e) ==
  LET N == e.sx * e.sy IN
  IF Len(e.b) # N THEN Verdict("BytesCount", TRUE, <<0, 0>>)
  ELSE IF ~BytesNonNeg(e.b) THEN Verdict("BytesNonNeg", TRUE, <<0, 0>>)
  ELSE IF ~BytesSum(e.b, N, e.num, e.den) THEN Verdict("BytesSum", TRUE, <<0, 0>>)
  ELSE IF e.b # BytesSeq(N, e.num, e.den) THEN Verdict("SpecFormula", FALSE, <<0, 0>>)
  ELSE Verdict("ok", FALSE, <<0, 0>>)

(* numbers as limbs; every slice size is a signed record [s, m] *)
BytesBigClause(e) ==
  LET N == e.sx * e.sy
      mags == [i \in 1..Len(e.b) |-> e.b[i].m] IN
  IF Len(e.b) # N THEN Verdict("BytesCount", TRUE, <<0, 0>>)
  ELSE IF \E i \in 1..N : e.b[i].s < 0 THEN Verdict("BytesNonNeg", TRUE, <<0, 0>>)
  ELSE IF ~BIsFloorDiv(BSum(mags), BMul(BFromNat(N), e.num), e.den)
       THEN Verdict("BytesSum", TRUE, <<0, 0>>)
  ELSE Verdict("ok", FALSE, <<0, 0>>)

(* one axis of one component with an extent far above 32 bits (limbs): n = picture extent, K = total   *)
(* scale exponent on this axis, P = padded extent (the code's subband extent one level above the top), *)
(* lv = <<shift, extent>> per level: extent * 2^shift must equal P; lo/hi = slice bounds at level 0.   *)
GeomBigClause(e) ==
  LET scale == BPow2(e.K)
      n0 == Len(e.lo) IN
  IF BLt(e.P, e.n) \/ ~BLt(BSub(e.P, e.n), scale) THEN Verdict("SubbandDims", TRUE, <<0, 0>>)        \* smallest padding
  ELSE IF \E i \in 1..Len(e.lv) : ~BEq(BMul(e.lv[i][2], BPow2(e.lv[i][1])), e.P)
       THEN Verdict("SubbandDims", TRUE, <<1, 0>>)                                                   \* padded / 2^k, exactly
  ELSE IF ~BIsZero(e.lo[1]) \/ ~BEq(e.hi[n0], e.lv[1][2])
          \/ (\E i \in 1..(n0 - 1) : ~BEq(e.hi[i], e.lo[i + 1]))
          \/ (\E i \in 1..n0 : BLt(e.hi[i], e.lo[i]))
       THEN Verdict(IF e.axis = "x" THEN "PartitionX" ELSE "PartitionY", TRUE, <<0, 0>>)
  ELSE Verdict("ok", FALSE, <<0, 0>>)

Clause(e) == CASE e.ev = "geom" -> GeomClause(e)
               [] e.ev = "geombig" -> GeomBigClause(e)
               [] e.ev = "bytes" -> BytesClause(e)
               [] e.ev = "bytesbig" -> BytesBigClause(e)
               [] OTHER -> Verdict("UnknownEvent", TRUE, <<0, 0>>)

TraceInit == l = 1 /\ bad = <<>>

TraceNext ==
  /\ l <= Len(Log)
  /\ l' = l + 1
  /\ LET e == Log[l]
         v == Clause(e) IN
     bad' = IF v.c = "ok" THEN bad
            ELSE Append(bad, [tid |-> e.tid, line |-> l, clause |-> v.c, alarm |-> v.alarm, at |-> v.at])

TraceSpec == TraceInit /\ [][TraceNext]_tvars

Report == l = Len(Log) + 1 => PrintT(<<"BAD", ToJson(bad)>>)
AllConsumed == TLCGet("stats").diameter - 1 = Len(Log)
=============================================================================
