---------------------------- MODULE SeqCompletion ----------------------------
(* Sequence completion (vc2_conformance/symbol_re.py: make_matching_sequence), C19.        *)
(*                                                                                         *)
(* One behaviour = one call.  Init picks the case; Solve computes what the call must       *)
(* return (length of a shortest valid completion, or Impossible) and what the greedy       *)
(* deviation D6 would return; TakeRequired / InsertSym(x) are the two moves of the code's  *)
(* breadth-first search, explored by TLC itself (TLC's breadth-first search *is* the       *)
(* code's queue), so that the invariants tie the operational Shortest to the moves and to  *)
(* the declarative definition:                                                             *)
(*    MachineSound     an accepting search state carries a valid completion                *)
(*    MachineMinimal   no accepting search state is shallower than Shortest                *)
(*    DeclAgrees       Shortest = length of a shortest valid completion by brute force     *)
(*    GreedyNeverBetter the deviation is never shorter, may be longer or give up           *)
EXTENDS SeqCompletionOps, TLC

CONSTANTS ReqSyms,
          MaxReq1, MaxReq2,     \* required lists: all sequences over ReqSyms of length <= MaxReq1 (with
                                \* single patterns) / <= MaxReq2 (with pairs of patterns)
          PatSyms,              \* symbols in enumerated patterns
          MaxOps1,              \* single patterns: <= MaxOps1 operators (-1: no single patterns)
          MaxOps2,              \* ordered pairs of patterns: each <= MaxOps2 operators (-1: no pairs)
          Limits,               \* permitted numbers of consecutive insertions
          MaxW,                 \* the search moves are explored up to this many symbols (0: Solve only)
          DeclBound             \* brute-force bound for DeclAgrees (0: not evaluated)

None == -1

Leaves == {Sym(a) : a \in PatSyms} \cup {Any, End}
RECURSIVE SeqsUpTo(_, _)
SeqsUpTo(S, n) == IF n = 0 THEN {<<>>}
                  ELSE LET R == SeqsUpTo(S, n - 1) IN R \cup {Append(s, x) : s \in {t \in R : Len(t) = n - 1}, x \in S}
Singles == IF MaxOps1 = None THEN {} ELSE {<<>>} \cup {<<p>> : p \in PatsUpTo(MaxOps1, Leaves)}
Pairs   == IF MaxOps2 = None THEN {}
           ELSE {<<p, q>> : p \in PatsUpTo(MaxOps2, Leaves), q \in PatsUpTo(MaxOps2, Leaves)}
Cases == [req : SeqsUpTo(ReqSyms, MaxReq1), pats : Singles, limit : Limits]
         \cup [req : SeqsUpTo(ReqSyms, MaxReq2), pats : Pairs, limit : Limits]

VARIABLES cs,    \* the case (arguments of the call)
          st,    \* current search state (product state)
          w,     \* symbols_so_far
          out    \* [short, greedy, txt]; Pending before Solve (txt: the patterns' concrete syntax)

vars == <<cs, st, w, out>>
Pending == [short |-> -2, greedy |-> -2, txt |-> <<>>]

Init == /\ cs \in Cases
        /\ st = Start(cs)
        /\ w = <<>>
        /\ out = Pending

Solve == /\ out = Pending
         /\ out' = [short |-> Shortest(cs), greedy |-> GreedyShortest(cs),
                     txt |-> [k \in 1..Len(cs.pats) |-> Toks(cs.pats[k], 0, "min")]]
         /\ UNCHANGED <<cs, st, w>>

TakeRequired == /\ out # Pending /\ Len(w) < MaxW
                /\ TakeEnabled(st, cs)
                /\ st' = Take(st, cs)
                /\ w' = Append(w, cs.req[st.i + 1])
                /\ UNCHANGED <<cs, out>>

InsertSym(x) == /\ out # Pending /\ Len(w) < MaxW
                /\ InsertEnabled(st, cs, x)
                /\ st' = Insert(st, x)
                /\ w' = Append(w, x)
                /\ UNCHANGED <<cs, out>>

Next == Solve \/ TakeRequired \/ \E x \in Sigma(cs) : InsertSym(x)

Spec == Init /\ [][Next]_vars

MachineSound == Accepting(st, cs) => ValidCompletion(w, cs)
MachineMinimal == (out # Pending /\ Accepting(st, cs)) => (out.short # Impossible /\ Len(w) >= out.short)
GreedyNeverBetter == out # Pending => (out.greedy = Impossible \/ (out.short # Impossible /\ out.greedy >= out.short))
DeclAgrees == (out # Pending /\ w = <<>> /\ DeclBound > 0) =>
                LET dsh == DeclShortest(cs, DeclBound, Sigma(cs) \cup {cs.req[i] : i \in 1..Len(cs.req)}) IN
                IF out.short = Impossible \/ out.short > DeclBound THEN dsh = Impossible ELSE dsh = out.short
(* the search state is the state the consumed symbols lead to *)
StateIsFoldOfW == st.ds = [k \in 1..Len(cs.pats) |-> DerivSeq(cs.pats[k], w)] /\ st.i <= Len(cs.req) /\ st.run <= cs.limit
=============================================================================
