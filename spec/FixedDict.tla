----------------------------- MODULE FixedDict -----------------------------
(* Fixed-entry dictionaries (vc2_conformance/fixeddict.py), property C27.                *)
(*                                                                                         *)
(* Abstract state: the mapping `d` held by the object under test (a function from the     *)
(* present keys to small values) and its dynamic type `typ`.  One action per public       *)
(* mutator, structured like the code: `update` walks its argument in order and assigns    *)
(* item by item, so a rejected update may already have applied the declared keys that     *)
(* preceded the offending one (that is what the code does; the property does not forbid   *)
(* it).  Construct/Copy/Pickle replace the object under test by the new object, so the    *)
(* remainder of a history runs on copies and unpickled instances too.                     *)
(*                                                                                         *)
(* Values: small integers, and Ref (= 2 in the model configurations): a REFERENCE to a     *)
(* fixed-entry dictionary that is reachable from its own contents -- the dictionary under *)
(* test itself (pad["bytes"] = pad) or a companion that contains itself.  For the key     *)
(* discipline a reference is a value like any other; for Copy/Pickle, d' = d then says    *)
(* that the result holds a reference to a self-containing dictionary wherever the         *)
(* original did (isomorphism: Python leaves == on cyclic dictionaries undefined).         *)
EXTENDS FixedDictOps, TLC

CONSTANTS Declared, Undeclared, Vals, MaxLen, MaxArg

AllKeys == Declared \cup Undeclared

VARIABLES d,      \* [present keys -> Vals]
          typ,    \* "fixed" | "plain": dynamic type of the object under test
          res,    \* outcome of the last operation: "ok" | "keyerror"
          pre,    \* abstract state before the last operation  (for VIEW: one state per transition)
          inp,    \* the last operation
          hist    \* history of operations, each with the spec's post-state (not in VIEW)

vars == <<d, typ, res, pre, inp, hist>>

(* ordered argument lists: sequences of distinct keys, length <= MaxArg *)
RECURSIVE SeqsUpTo(_)
SeqsUpTo(n) == IF n = 0 THEN {<<>>}
               ELSE LET S == SeqsUpTo(n - 1) IN
                    S \cup {Append(s, k) : s \in {t \in S : Len(t) = n - 1}, k \in AllKeys}
ArgLists == {s \in SeqsUpTo(MaxArg) : \A i, j \in 1..Len(s) : i # j => s[i] # s[j]}

Ops ==
       [op : {"construct", "construct_fd", "construct_mixed"}, ks : ArgLists, v : Vals]
  \cup [op : {"setitem", "setdefault"}, k : AllKeys, v : Vals]
  \cup [op : {"update_dict", "update_pairs", "update_kwargs", "ior", "update_fd", "ior_fd", "update_mixed"}, ks : ArgLists, v : Vals]
  \cup [op : {"copy", "pickle"}]

Post(o) == PostP(d, Declared, o)

Init == /\ d = <<>> /\ typ = "fixed" /\ res = "ok"
        /\ pre = <<>> /\ inp = [op |-> "init"] /\ hist = <<>>

Do(o) == /\ Len(hist) < MaxLen
         /\ LET p == Post(o) IN
            /\ d' = p.d /\ res' = p.res
            /\ hist' = Append(hist, [o |-> o, d |-> p.d, res |-> p.res])
         /\ typ' = "fixed"
         /\ pre' = d /\ inp' = o

Next == \E o \in Ops : Do(o)

Spec == Init /\ [][Next]_vars

(* --- C27 as state invariants / action properties -------------------------------------- *)
OnlyDeclared == DOMAIN d \subseteq Declared
SameType     == typ = "fixed"
\* a rejected operation never introduces an undeclared key, an accepted one names only declared keys
RejectIffUndeclared == [][(res' = "keyerror") = NamesUndeclared(inp', Declared)]_vars
CopyPickleIdentity == [][(inp'.op \in {"copy", "pickle"}) => (d' = d /\ typ' = typ)]_vars

View == <<pre, inp, d, typ, res>>
=============================================================================
