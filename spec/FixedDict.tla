----------------------------- MODULE FixedDict -----------------------------
(* Fixed-entry dictionaries (vc2_conformance/fixeddict.py), property C27.                *)
(*                                                                                         *)
(* Abstract state: the mapping `d` held by the object under test (a function from the     *)
(* present keys to small values) and its dynamic type `typ`.  One action per public       *)
(* mutator, structured like the code: `update` walks its argument in order and assigns    *)
(* item by item, so a rejected update may already have applied the declared keys that     *)
(* preceded the offending one (that is what the code does; the property does not forbid   *)
(* it).  Construct/Copy/Pickle replace the object under test by the new object, so the    *)
(* remainder of a history runs on copies and unpickled instances too.                     *)
EXTENDS Integers, Sequences, FiniteSets, TLC

CONSTANTS Declared, Undeclared, Vals, MaxLen, MaxArg

AllKeys == Declared \cup Undeclared

VARIABLES d,      \* [present keys -> Vals]
          typ,    \* "fixed" | "plain": dynamic type of the object under test
          res,    \* outcome of the last operation: "ok" | "keyerror"
          pre,    \* abstract state before the last operation  (for VIEW: one state per transition)
          inp,    \* the last operation
          hist    \* history of operations, each with the spec's post-state (not in VIEW)

vars == <<d, typ, res, pre, inp, hist>>

(* ordered argument lists: sequences of distinct keys, length <= MaxArg *)
RECURSIVE SeqsUpTo(_)
SeqsUpTo(n) == IF n = 0 THEN {<<>>}
               ELSE LET S == SeqsUpTo(n - 1) IN
                    S \cup {Append(s, k) : s \in {t \in S : Len(t) = n - 1}, k \in AllKeys}
ArgLists == {s \in SeqsUpTo(MaxArg) : \A i, j \in 1..Len(s) : i # j => s[i] # s[j]}

Range(s) == {s[i] : i \in 1..Len(s)}

(* assignment of value v to every key of `ks` on top of mapping m *)
Assign(m, ks, v) == [k \in (DOMAIN m) \cup ks |-> IF k \in ks THEN v ELSE m[k]]

(* index of the first undeclared key of an argument list, 0 if none *)
FirstBad(s) == IF \E i \in 1..Len(s) : s[i] \in Undeclared
               THEN CHOOSE i \in 1..Len(s) : s[i] \in Undeclared /\ \A j \in 1..(i-1) : s[j] \in Declared
               ELSE 0

Prefix(s, n) == {s[i] : i \in 1..n}

Ops ==
       [op : {"construct"}, ks : ArgLists, v : Vals]
  \cup [op : {"setitem", "setdefault"}, k : AllKeys, v : Vals]
  \cup [op : {"update_dict", "update_pairs", "update_kwargs", "ior"}, ks : ArgLists, v : Vals]
  \cup [op : {"copy", "pickle"}]

(* --- the design: what each operation must do ---------------------------------------- *)
Post(o) ==
  CASE o.op = "construct" ->
         \* construction from a mapping: rejected as a whole if any key is undeclared
         IF Range(o.ks) \subseteq Declared
         THEN [d |-> Assign(<<>>, Range(o.ks), o.v), res |-> "ok"]
         ELSE [d |-> d, res |-> "keyerror"]          \* no new object: keep the old one
    [] o.op = "setitem" ->
         IF o.k \in Declared THEN [d |-> Assign(d, {o.k}, o.v), res |-> "ok"]
         ELSE [d |-> d, res |-> "keyerror"]
    [] o.op = "setdefault" ->
         IF o.k \in Declared
         THEN [d |-> IF o.k \in DOMAIN d THEN d ELSE Assign(d, {o.k}, o.v), res |-> "ok"]
         ELSE [d |-> d, res |-> "keyerror"]
    [] o.op \in {"update_dict", "update_pairs", "update_kwargs", "ior"} ->
         LET b == FirstBad(o.ks) IN
         IF b = 0 THEN [d |-> Assign(d, Range(o.ks), o.v), res |-> "ok"]
         ELSE [d |-> Assign(d, Prefix(o.ks, b - 1), o.v), res |-> "keyerror"]
    [] o.op \in {"copy", "pickle"} -> [d |-> d, res |-> "ok"]

Init == /\ d = <<>> /\ typ = "fixed" /\ res = "ok"
        /\ pre = <<>> /\ inp = [op |-> "init"] /\ hist = <<>>

Do(o) == /\ Len(hist) < MaxLen
         /\ LET p == Post(o) IN
            /\ d' = p.d /\ res' = p.res
            /\ hist' = Append(hist, [o |-> o, d |-> p.d, res |-> p.res])
         /\ typ' = "fixed"
         /\ pre' = d /\ inp' = o

Next == \E o \in Ops : Do(o)

Spec == Init /\ [][Next]_vars

(* --- C27 as state invariants / action properties -------------------------------------- *)
OnlyDeclared == DOMAIN d \subseteq Declared
SameType     == typ = "fixed"
\* a rejected operation never introduces an undeclared key, an accepted one names only declared keys
RejectIffUndeclared ==
  [][LET o == inp' IN
        (res' = "keyerror") = (CASE o.op \in {"setitem", "setdefault"} -> o.k \in Undeclared
                                 [] o.op \in {"copy", "pickle"} -> FALSE
                                 [] OTHER -> Range(o.ks) \cap Undeclared # {})]_vars
CopyPickleIdentity == [][(inp'.op \in {"copy", "pickle"}) => (d' = d /\ typ' = typ)]_vars

View == <<pre, inp, d, typ, res>>
=============================================================================
