----------------------- MODULE CodecFeaturesCsvTrace -----------------------
(* Judging of recorded calls of read_codec_features_csv (property C28).  One event per     *)
(* CSV text: the exception class ("none", "invalid" = InvalidCodecFeaturesError,           *)
(* "oversize_cell" = a cell above the csv module's 131072-character limit, which is        *)
(* outside the stated bound and only counted) or the returned configurations projected to  *)
(* scalars.  TLC checks every returned field against its documented domain                  *)
(* (CodecFeaturesOps + the enumerations extracted from vc2_data_tables).                    *)
(* Every event also carries "given": for each column of the text that has at least one     *)
(* non-empty value cell (the driver's own reading of the text it wrote), whether it has an *)
(* explicit name and which.  An accepted text must return one configuration per such       *)
(* column (two columns that end up with one name cannot both be returned: the names would  *)
(* not be unique), in column order, explicitly named columns under their names.             *)
EXTENDS CodecFeaturesOps, CodecFeaturesTables, Json, IOUtils, TLC, TLCExt

Log == ndJsonDeserialize(IOEnv.TRACE_FILE)

VARIABLES l, bad
tvars == <<l, bad>>

SeqRange(s) == {s[i] : i \in 1..Len(s)}

\* recorded enum value: <<type name, integer value>> ; integer: saturated to +-2^30 ; bool: <<is_bool, value>>
EnumOk(col, f, T) == col.enums[f][1] = T /\ col.enums[f][2] \in EnumValues[T]
ColEnumsOk(col) == /\ \A f \in DOMAIN EnumType : EnumOk(col, f, EnumType[f])
                   /\ \A f \in DOMAIN VpEnumType : EnumOk(col, f, VpEnumType[f])
ColIntsOk(col)  == /\ \A f \in IntFields : col.ints[f][1] /\ col.ints[f][2] >= IntMin[f]
                   /\ \A f \in VpIntFields : col.ints[f][1] /\ col.ints[f][2] >= VpIntMin[f]
ColBoolsOk(col) == \A f \in BoolFields \cup VpBoolFields : col.bools[f][1]
ColPbOk(col)    == /\ col.pb_none = col.bools["lossless"][2]
                   /\ ~col.pb_none => (col.pb[1] /\ col.pb[2] >= PictureBytesMin)
ColQmOk(col)    == col.qm_none \/
                   LET d == col.ints["dwt_depth"][2]  ho == col.ints["dwt_depth_ho"][2] IN
                   /\ col.qm_ints
                   /\ Len(col.qm) = 1 + ho + d
                   /\ \A i \in 1..Len(col.qm) : col.qm[i][1] = i - 1 /\ SeqRange(col.qm[i][2]) = QmOrients(i - 1, d, ho)
                                                 /\ Len(col.qm[i][2]) = Cardinality(QmOrients(i - 1, d, ho))
NamesOk(e)      == /\ \A i, j \in 1..Len(e.cols) : i # j => e.cols[i].name # e.cols[j].name
                   /\ Len(e.keys) = Len(e.cols) /\ \A i \in 1..Len(e.cols) : e.keys[i] = e.cols[i].name

\* one configuration per non-empty column of the text: nothing dropped, merged or invented
PerColumnOk(e)  == Len(e.cols) = Len(e.given)
\* explicitly named columns are returned under their (stripped) names, in column order
GivenNamesOk(e) == \A i \in 1..Len(e.given) : e.given[i].named => e.cols[i].name = e.given[i].name

FirstBad(e, P(_)) == \E i \in 1..Len(e.cols) : ~P(e.cols[i])

Clause(e) ==
  IF e.exc = "oversize_cell"                 THEN [c |-> "ok", alarm |-> FALSE]
  ELSE IF e.exc \notin {"none", "invalid"}   THEN [c |-> "OtherException", alarm |-> TRUE]
  ELSE IF e.exc = "invalid"                  THEN (IF e.pred = "ok" THEN [c |-> "Prediction(ok,got invalid)", alarm |-> FALSE]
                                                   ELSE [c |-> "ok", alarm |-> FALSE])
  ELSE IF ~e.shape_ok                        THEN [c |-> "ReturnShape", alarm |-> TRUE]
  ELSE IF FirstBad(e, ColEnumsOk)            THEN [c |-> "EnumDomain", alarm |-> TRUE]
  ELSE IF FirstBad(e, ColIntsOk)             THEN [c |-> "IntegerMinimum", alarm |-> TRUE]
  ELSE IF FirstBad(e, ColBoolsOk)            THEN [c |-> "BoolDomain", alarm |-> TRUE]
  ELSE IF FirstBad(e, ColPbOk)               THEN [c |-> "PictureBytesIffLossy", alarm |-> TRUE]
  ELSE IF FirstBad(e, ColQmOk)               THEN [c |-> "QuantMatrixShape", alarm |-> TRUE]
  ELSE IF ~NamesOk(e)                        THEN [c |-> "UniqueNames", alarm |-> TRUE]
  ELSE IF ~PerColumnOk(e)                    THEN [c |-> "OneConfigurationPerColumn", alarm |-> TRUE]
  ELSE IF ~GivenNamesOk(e)                   THEN [c |-> "ExplicitNames", alarm |-> FALSE]
  ELSE IF e.pred = "invalid"                 THEN [c |-> "Prediction(invalid,got ok)", alarm |-> FALSE]
  ELSE [c |-> "ok", alarm |-> FALSE]

TraceInit == l = 1 /\ bad = <<>>
TraceNext ==
  /\ l <= Len(Log)
  /\ l' = l + 1
  /\ LET e == Log[l]
         c == Clause(e)
     IN bad' = IF c.c = "ok" THEN bad
               ELSE Append(bad, [tid |-> e.tid, line |-> l, clause |-> c.c, alarm |-> c.alarm])
TraceSpec == TraceInit /\ [][TraceNext]_tvars

Report == l = Len(Log) + 1 => PrintT(<<"BAD", ToJson(bad)>>)
AllConsumed == TLCGet("stats").diameter - 1 = Len(Log)
=============================================================================
