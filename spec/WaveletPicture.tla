---------------------------- MODULE WaveletPicture ----------------------------
(* The state-level layer of property C11: the wavelet transform of a WHOLE picture as the   *)
(* codec runs it.  Wavelet.tla explores one component array at a time (dwt_pad_addition /   *)
(* dwt / idwt / idwt_pad_removal); here the entry points that work on the decoder state are *)
(* modelled: forward_wavelet_transform / picture_encode (15.3, encoder side) and            *)
(* inverse_wavelet_transform / picture_decode (15.3 / 15.2).  One set of transform          *)
(* parameters serves three components whose sizes come from the state -- luma_width x       *)
(* luma_height for Y, color_diff_width x color_diff_height for C1 and C2 -- and are         *)
(* INDEPENDENT of each other: every combination of "Y needs padding" and "C1/C2 need        *)
(* padding" occurs in the box for every depth pair (invariant BoxCoversPaddingClasses).     *)
(*                                                                                          *)
(* One action per public step: TransformParameters, PictureDimensions (sizes and depths in  *)
(* the state), Picture, EncodeStep (mode "fwt": forward_wavelet_transform on any integers;  *)
(* mode "codec": picture_encode on in-range samples), DecodeStep (inverse_wavelet_transform *)
(* / picture_decode).  Exhaustive over configurations; the pictures of a configuration are  *)
(* a few deterministic patterns (every picture of a small size is already explored per      *)
(* component by Wavelet.tla).  No VIEW is needed: -dump lists every configuration with the  *)
(* design's coefficients of all three components (G direction).                            *)
(* Root module at run time: a generated WaveletPictureBox (constants of the box + tables).  *)
EXTENDS WaveletOps

CONSTANTS FilterPairs,   \* set of <<wavelet_index, wavelet_index_ho>>
          Depths,        \* set of <<dwt_depth, dwt_depth_ho>>
          LumaSizes,     \* set of <<luma_width, luma_height>>
          ChromaSizes,   \* set of <<color_diff_width, color_diff_height>>
          BitDepths,     \* set of <<luma_depth, color_diff_depth>>
          Patterns       \* set of naturals: which deterministic picture

VARIABLES stage,  \* "start" | "params" | "dims" | "picture" | "encoded" | "decoded"
          mode,   \* "fwt" | "codec"
          f, fho, d, dho,
          sz,     \* [lw, lh, cw, ch]
          dp,     \* [y, c] sample depths (used by mode "codec")
          pic, co, rec    \* functions on CompNames

vars == <<stage, mode, f, fho, d, dho, sz, dp, pic, co, rec>>

NoSize == [lw |-> 0, lh |-> 0, cw |-> 0, ch |-> 0]
NoDepth == [y |-> 0, c |-> 0]
Init == /\ stage = "start" /\ mode = "fwt" /\ f = 0 /\ fho = 0 /\ d = 0 /\ dho = 0
        /\ sz = NoSize /\ dp = NoDepth /\ pic = <<>> /\ co = <<>> /\ rec = <<>>

TransformParameters(p, q) ==
  /\ stage = "start" /\ f' = p[1] /\ fho' = p[2] /\ d' = q[1] /\ dho' = q[2] /\ stage' = "params"
  /\ UNCHANGED <<mode, sz, dp, pic, co, rec>>

PictureDimensions(l, c, b) ==
  /\ stage = "params" /\ stage' = "dims"
  /\ sz' = [lw |-> l[1], lh |-> l[2], cw |-> c[1], ch |-> c[2]]
  /\ dp' = [y |-> b[1], c |-> b[2]]
  /\ UNCHANGED <<mode, f, fho, d, dho, pic, co, rec>>

(* deterministic sample patterns: every value of lo..hi occurs as the pattern and position vary *)
CompIdx(c) == CASE c = "Y" -> 0 [] c = "C1" -> 1 [] OTHER -> 2
PatternPic(w, h, k, ci, lo, hi) ==
  Seal2([y \in 1..h |-> [x \in 1..w |-> lo + ((3 * x * x + 7 * y + 5 * ci + k * (x + 2 * y) + k) % (hi - lo + 1))]])
Picture(k, m) ==
  /\ stage = "dims" /\ stage' = "picture" /\ mode' = m
  /\ pic' = [c \in CompNames |->
               IF m = "fwt" THEN PatternPic(CompW(sz, c), CompH(sz, c), k, CompIdx(c), 0 - 3, 3)
               ELSE PatternPic(CompW(sz, c), CompH(sz, c), k, CompIdx(c), 0, 2 ^ CompDepth(dp, c) - 1)]
  /\ UNCHANGED <<f, fho, d, dho, sz, dp, co, rec>>

EncodeStep ==
  /\ stage = "picture" /\ stage' = "encoded"
  /\ co' = IF mode = "fwt" THEN ForwardWaveletTransform(pic, sz, f, fho, d, dho)
           ELSE PictureEncodeOp(pic, sz, dp, f, fho, d, dho)
  /\ UNCHANGED <<mode, f, fho, d, dho, sz, dp, pic, rec>>

DecodeStep ==
  /\ stage = "encoded" /\ stage' = "decoded"
  /\ rec' = IF mode = "fwt" THEN InverseWaveletTransform(co, sz, f, fho, d, dho)
            ELSE PictureDecodeOp(co, sz, dp, f, fho, d, dho)
  /\ UNCHANGED <<mode, f, fho, d, dho, sz, dp, pic, co>>

Next == \/ \E p \in FilterPairs, q \in Depths : TransformParameters(p, q)
        \/ \E l \in LumaSizes, c \in ChromaSizes, b \in BitDepths : PictureDimensions(l, c, b)
        \/ \E k \in Patterns, m \in {"fwt", "codec"} : Picture(k, m)
        \/ EncodeStep
        \/ DecodeStep

Spec == Init /\ [][Next]_vars

(* ------------------------------ C11 at the state level ---------------------------------- *)
PictureWellFormed ==
  stage \in {"picture", "encoded", "decoded"} =>
    /\ \A c \in CompNames : Width(pic[c]) = CompW(sz, c) /\ Height(pic[c]) = CompH(sz, c)
    /\ mode = "codec" => InRange(pic, dp)

PerfectReconstructionAll ==
  stage = "decoded" => \A c \in CompNames : Reconstructs(pic[c], rec[c])

(* every component's bands have the shapes the slice geometry uses for THAT component *)
ShapesMatchSliceGeometryAll ==
  stage \in {"encoded", "decoded"} =>
    \A c \in CompNames :
      /\ DOMAIN co[c] = Levels(d, dho)
      /\ \A n \in Levels(d, dho) :
           /\ DOMAIN co[c][n] = (IF n = 0 THEN {"DC"} ELSE BandNames(n, d, dho))
           /\ \A b \in DOMAIN co[c][n] :
                /\ Width(co[c][n][b]) = SubbandWidth(CompW(sz, c), d, dho, n)
                /\ Height(co[c][n][b]) = SubbandHeight(CompH(sz, c), d, dho, n)

(* the box really contains the interesting wiring cases: for every depth pair with at least   *)
(* one transform level, every combination of "luma needs padding" / "colour difference needs *)
(* padding" occurs (a condition on the constants, evaluated in the initial state)             *)
PadClasses(q) ==
  {<<NeedsPadding(l[1], l[2], q[1], q[2]), NeedsPadding(c[1], c[2], q[1], q[2])>> : l \in LumaSizes, c \in ChromaSizes}
BoxCoversPaddingClasses ==
  stage = "start" => \A q \in Depths : (q[1] + q[2] > 0) => PadClasses(q) = BOOLEAN \X BOOLEAN
=============================================================================
