------------------------------- MODULE RawFile -------------------------------
(* Raw picture files and the picture comparison tool (property C23) as a choice process:   *)
(* ChooseFormat, ChooseDepths, ChoosePicture (write + read back), Compare (a second        *)
(* picture that differs from the first in a chosen set of ways).  TLC enumerates the       *)
(* configurations (every depth 1..64 for luma, the same or the complementary depth for     *)
(* colour difference, every valid small format), computes the predicted dimensions, bytes  *)
(* per sample, file size, exit code and per-component difference counts, and checks the    *)
(* arithmetic facts the design relies on.  The driver builds each configuration with the   *)
(* real code (file_format.write / read, vc2_picture_compare.compare_pictures).             *)
EXTENDS RawFileOps, TLC

CONSTANTS Sizes,        \* set of <<w, h>>
          MaxDepth,     \* luma depths 1..MaxDepth; colour-difference depth d or MaxDepth+1-d
          CmpDepths     \* luma depths for which Compare is explored

SizesSmall == {<<1, 1>>, <<2, 2>>, <<3, 3>>, <<4, 4>>, <<2, 4>>}
SizesMore  == SizesSmall \cup {<<6, 4>>, <<2, 8>>, <<5, 2>>, <<8, 2>>}
Subs   == {"444", "422", "420"}
Formats == {f \in [w : {s[1] : s \in Sizes}, h : {s[2] : s \in Sizes}, sub : Subs, fields : BOOLEAN] :
              <<f.w, f.h>> \in Sizes /\ ValidFormat([w |-> f.w, h |-> f.h, sub |-> f.sub, fields |-> f.fields, dl |-> 1, dc |-> 1])}
F0 == [w |-> 2, h |-> 2, sub |-> "422", fields |-> FALSE]
SampleClasses == {"zero", "max", "alt", "rand"}
NumberClasses == {"zero", "one", "p31", "max32"}     \* 0, 1, 2^31, 2^32 - 1

VARIABLES stage,  \* "init" | "fmt" | "depth" | "pic" | "cmp"
          fmt,    \* the format chosen so far (dl = dc = 0 until chosen)
          pic,    \* [sc, pn]
          diff,   \* how the second picture differs
          obs,    \* predictions for the driver
          inp, hist

vars == <<stage, fmt, pic, diff, obs, inp, hist>>

NoFmt  == [w |-> 0, h |-> 0, sub |-> "444", fields |-> FALSE, dl |-> 0, dc |-> 0]
NoPic  == [sc |-> "zero", pn |-> "zero"]
NoDiff == [params |-> FALSE, mode |-> FALSE, number |-> FALSE, pad |-> FALSE, n |-> [c \in {"Y", "C1", "C2"} |-> 0]]
NoObs  == [exit |-> 0 - 1]

Init == stage = "init" /\ fmt = NoFmt /\ pic = NoPic /\ diff = NoDiff /\ obs = NoObs
        /\ inp = [a |-> "init"] /\ hist = <<>>

Step(i) == inp' = i /\ hist' = Append(hist, i)

ChooseFormat == \E f \in Formats :
  /\ stage = "init" /\ stage' = "fmt"
  /\ fmt' = [w |-> f.w, h |-> f.h, sub |-> f.sub, fields |-> f.fields, dl |-> 0, dc |-> 0]
  /\ UNCHANGED <<pic, diff, obs>> /\ Step([a |-> "format", f |-> f])

ChooseDepths == \E dl \in 1..MaxDepth, alt \in BOOLEAN :
  /\ stage = "fmt" /\ stage' = "depth"
  /\ fmt' = [fmt EXCEPT !.dl = dl, !.dc = IF alt THEN MaxDepth + 1 - dl ELSE dl]
  /\ UNCHANGED <<pic, diff, obs>> /\ Step([a |-> "depths", dl |-> dl, alt |-> alt])

Dims(f) == [c \in {"Y", "C1", "C2"} |-> [w |-> W(f, c), h |-> H(f, c), d |-> Depth(f, c), bps |-> Bps(Depth(f, c))]]

ChoosePicture == \E sc \in SampleClasses, pn \in NumberClasses :
  /\ stage = "depth" /\ stage' = "pic"
  \* every (class, number) pair on one format, one representative pair on all the others
  /\ ([w |-> fmt.w, h |-> fmt.h, sub |-> fmt.sub, fields |-> fmt.fields] = F0) \/ (sc = "rand" /\ pn = "one")
  /\ pic' = [sc |-> sc, pn |-> pn]
  /\ obs' = [exit |-> 0 - 1, dims |-> Dims(fmt), size |-> FileSize(fmt), roundtrip |-> TRUE]
  /\ UNCHANGED <<fmt, diff>> /\ Step([a |-> "picture", sc |-> sc, pn |-> pn])

Flip(f) == [f EXCEPT !.fields = ~f.fields]
CountChoices(c) == {0, 1} \cup {Count(fmt, c)}

Compare == \E p \in BOOLEAN, m \in BOOLEAN, nb \in BOOLEAN, pad \in BOOLEAN,
              ny \in CountChoices("Y"), n1 \in CountChoices("C1"), n2 \in CountChoices("C2") :
  /\ stage = "pic" /\ stage' = "cmp"
  /\ fmt.dl \in CmpDepths /\ pic.sc = "rand" /\ pic.pn = "one"
  /\ m => ValidFormat(Flip(fmt))
  /\ pad => HasPadding(fmt)
  \* full product of sample-difference counts without metadata differences; metadata subsets
  \* combined with "no sample differs" and "one luma sample differs"
  /\ (p \/ m \/ nb) => (n1 = 0 /\ n2 = 0 /\ ny \in {0, 1} /\ ~pad)
  /\ LET cnt == [c \in {"Y", "C1", "C2"} |-> IF c = "Y" THEN ny ELSE IF c = "C1" THEN n1 ELSE n2] IN
     /\ diff' = [params |-> p, mode |-> m, number |-> nb, pad |-> pad, n |-> cnt]
     /\ obs' = [exit |-> ExitCode(~p, ~m, ~nb, cnt), counts |-> cnt]
     /\ Step([a |-> "compare", d |-> diff'])
  /\ UNCHANGED <<fmt, pic>>

Next == ChooseFormat \/ ChooseDepths \/ ChoosePicture \/ Compare
Spec == Init /\ [][Next]_vars

(* --- facts checked by TLC ---------------------------------------------------------------- *)
\* bytes per sample: the smallest power of two holding the depth
BpsSmallestPow2 == stage # "init" /\ fmt.dl > 0 =>
  \A d \in {fmt.dl, fmt.dc} : /\ IsPow2(Bps(d)) /\ 8 * Bps(d) >= d
                              /\ \A k \in 0..3 : (2^k < Bps(d)) => 8 * 2^k < d
\* reading back what was written returns the sample for every in-range sample (on the deterministic
\* sample classes), and whatever the raw bytes are the sample read is in range
ReadWriteIdentity == stage = "depth" =>
  \A d \in {fmt.dl, fmt.dc} :
     /\ \A s \in {ZeroSample(d), MaxSample(d), AltSample(d, TRUE), AltSample(d, FALSE)} :
           InRangeDigits(s, d) /\ ReadSample(s, d) = s
     /\ InRangeDigits(ReadSample([i \in 1..Bps(d) |-> 255], d), d)
SizeIsSum == stage = "pic" => obs.size = PlaneBytes(fmt, "Y") + 2 * PlaneBytes(fmt, "C1") /\ obs.size > 0
\* exit code 0 exactly when nothing but padding bits differs; 4 exactly when only samples differ
ExitZeroIffIdentical == stage = "cmp" =>
  /\ (obs.exit = 0) = (~diff.params /\ ~diff.mode /\ ~diff.number /\ \A c \in {"Y", "C1", "C2"} : diff.n[c] = 0)
  /\ (obs.exit = 4) = (~diff.params /\ ~diff.mode /\ ~diff.number /\ \E c \in {"Y", "C1", "C2"} : diff.n[c] > 0)

View == <<stage, fmt, pic, diff, obs, inp>>
=============================================================================
