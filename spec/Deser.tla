-------------------------------- MODULE Deser --------------------------------
(* Exhaustive exploration of the lenient parser's outcome machine over an alphabet of data   *)
(* units that includes parseable-but-non-conformant variants (the "not in spec" robustness   *)
(* substitutions of bitstream/vc2.py), property C06.  Every history is turned into bytes by  *)
(* the harness's own writer and run through Deserialiser -> Serialiser -> Deserialiser.      *)
(* hist carries, per step, the outcome the design predicts; C06's premise is out="complete". *)
EXTENDS DeserOps

CONSTANTS MaxLen

VARIABLES st, ended, pre, inp, hist
vars == <<st, ended, pre, inp, hist>>

Profs == {"ld", "hq", "none"}
\* slice payload variants (concretised by the harness writer; all must parse and round-trip)
LDVar == {"exact", "clamp", "dangling", "ones"}
HQVar == {"exact", "long", "short", "zerolen", "prefix"}
SliceVar(p) == IF p = "ld" THEN LDVar ELSE IF p = "hq" THEN HQVar ELSE {"exact"}

Units ==
       [k : {"SH"}, ver : {1, 2, 3}, idx : {"known", "unknown"}, bvf : {"custom", "unknown"},
        align : {"zero", "ones"}]
  \cup UNION {[k : {"PIC"}, prof : {p}, sl : SliceVar(p), align : {"zero", "ones"}] : p \in Profs}
  \cup [k : {"FRAG0"}, prof : Profs, pcx : {"std", "odd"}]
  \cup UNION {[k : {"FRAGN"}, prof : {p}, sl : SliceVar(p), at : {"in", "oob"}] : p \in {"ld", "hq"}}
  \cup [k : {"DATA"}, pc : {32, 39, 48}, npo : {"exact", "zero", "short", "thirteen"}, len : {0}]
  \cup [k : {"DATA"}, pc : {32, 39, 48}, npo : {"exact", "beyond"}, len : {3}]
  \cup [k : {"UNK"}, pc : {64, 8}]
  \cup [k : {"EOS"}, offs : {"zero", "junk"}, prefix : {"ok", "bad"}]
Ends == {"clean", "trail", "cut"}

(* predicted outcome if the byte string ends cleanly here / after one more plain EOS unit *)
PlainEOS == [k |-> "EOS", offs |-> "zero", prefix |-> "ok"]
FinOut(s) == IF Live(s) THEN Finish(s, "clean").out ELSE s.out
CloseWith(s) == IF Live(s) THEN Step(s, PlainEOS) ELSE s

Init == st = Start /\ ended = FALSE /\ pre = Start /\ inp = [k |-> "INIT"] /\ hist = <<>>

Feed(u) == /\ ~ended /\ Live(st) /\ Len(hist) < MaxLen
           /\ st' = Step(st, u) /\ ended' = FALSE
           /\ pre' = st /\ inp' = u
           /\ hist' = Append(hist, [u |-> u, out |-> st'.out, dev |-> DeviationNegativeLength(u),
                                     fin |-> FinOut(st'), closed |-> FinOut(CloseWith(st'))])
End(how) == /\ ~ended /\ Len(hist) >= 1
            /\ st' = IF Live(st) THEN Finish(st, how) ELSE st
            /\ ended' = TRUE /\ pre' = st /\ inp' = [k |-> "END", how |-> how]
            /\ hist' = Append(hist, [u |-> inp', out |-> st'.out, dev |-> FALSE,
                                      fin |-> st'.out, closed |-> st'.out])
Next == (\E u \in Units : Feed(u)) \/ (\E h \in Ends : End(h))
Spec == Init /\ [][Next]_vars
View == <<pre, inp, st, ended>>

Fed == [i \in 1..(IF ended THEN Len(hist) - 1 ELSE Len(hist)) |-> hist[i].u]

(* the fold (code structure) computes the same outcome as the recursive run *)
FoldAgree == ~ended => st = Run(Fed, Len(Fed))
(* premise characterised: a history parses to completion iff it is well-formed and ends cleanly *)
CompleteIff == ended => ((st.out = "complete") <=> (WellFormed(Fed) /\ inp.how = "clean"))
(* nothing is read after a failure *)
Absorbing == [][~Live(st) /\ ~ended => st'.out = st.out]_vars
OutcomeTotal == st.out \in {"open", "boundary", "raises", "eof", "complete"}
=============================================================================
