-------------------------------- MODULE Deser --------------------------------
(* Exhaustive exploration of the lenient parser's outcome machine over an alphabet of data   *)
(* units that includes parseable-but-non-conformant variants (the "not in spec" robustness   *)
(* substitutions of bitstream/vc2.py), property C06.  Every history is turned into bytes by  *)
(* the harness's own writer and run through Deserialiser -> Serialiser -> Deserialiser.      *)
(* hist carries, per step, the outcome the design predicts; C06's premise is out="complete". *)
EXTENDS DeserOps

CONSTANTS MaxLen, WithBig      \* WithBig: explore the huge-value units too (FALSE for the random walks)

VARIABLES st, ended, pre, inp, hist, tab
vars == <<st, ended, pre, inp, hist, tab>>

Profs == {"ld", "hq", "none"}
\* slice payload variants (concretised by the harness writer; all must parse and round-trip)
LDVar == {"exact", "clamp", "dangling", "ones"}
HQVar == {"exact", "long", "short", "zerolen", "prefix"}
SliceVar(p) == IF p = "ld" THEN LDVar ELSE IF p = "hq" THEN HQVar ELSE {"exact"}

Units ==
       [k : {"SH"}, ver : {1, 2, 3}, idx : {"known", "unknown"}, bvf : {"custom", "unknown"},
        align : {"zero", "ones"}]
  \cup UNION {[k : {"PIC"}, prof : {p}, sl : SliceVar(p), align : {"zero", "ones"}] : p \in Profs}
  \cup [k : {"FRAG0"}, prof : Profs, pcx : {"std", "odd"}]
  \cup UNION {[k : {"FRAGN"}, prof : {p}, sl : SliceVar(p), at : {"in", "oob"}] : p \in {"ld", "hq"}}
  \cup [k : {"DATA"}, pc : {32, 39, 48}, npo : {"exact", "zero", "short", "thirteen"}, len : {0}]
  \cup [k : {"DATA"}, pc : {32, 39, 48}, npo : {"exact", "beyond"}, len : {3}]
  \cup [k : {"UNK"}, pc : {64, 8}]
  \cup [k : {"EOS"}, offs : {"zero", "junk"}, prefix : {"ok", "bad"}]
(* units that carry one huge exp-Golomb value (DeserOps!BigClasses) in a field that does not steer   *)
(* the parse: a sequence header field, a custom quantisation matrix entry, a slice coefficient      *)
(* (first / last of a component, either sign)                                                       *)
SHBigPos == {"minor_version", "level", "frame_rate_denom", "pixel_aspect_ratio_numer", "clean_left_offset",
             "color_diff_excursion"}
CoeffPos == {"first", "first_neg", "last_neg"}
BigUnits ==
       [k : {"SH"}, ver : {3}, idx : {"known"}, bvf : {"custom"}, align : {"zero"}, big : BigClasses, pos : SHBigPos]
  \cup [k : {"PIC"}, prof : {"ld", "hq"}, sl : {"exact"}, align : {"zero"}, big : BigClasses,
        pos : CoeffPos \cup {"quant_matrix"}]
  \cup [k : {"FRAG0"}, prof : {"ld", "hq"}, pcx : {"std"}, big : BigClasses, pos : {"quant_matrix"}]
  \cup [k : {"FRAGN"}, prof : {"hq"}, sl : {"exact"}, at : {"in"}, big : BigClasses, pos : CoeffPos]
(* a huge-value unit is explored after every plain unit (in every state: these reach every live      *)
(* state of the outcome machine) and at the start, and is followed by the end of the stream or a     *)
(* plain end of sequence: the outcome machine does not depend on the payload, and without this the  *)
(* exploration would be quadratic in the 532 huge-value units                                       *)
PlainUnits == {[k |-> "SH", ver |-> 3, idx |-> "known", bvf |-> "custom", align |-> "zero"],
               [k |-> "PIC", prof |-> "ld", sl |-> "exact", align |-> "zero"],
               [k |-> "PIC", prof |-> "hq", sl |-> "exact", align |-> "zero"],
               [k |-> "FRAG0", prof |-> "ld", pcx |-> "std"], [k |-> "FRAG0", prof |-> "hq", pcx |-> "std"],
               [k |-> "EOS", offs |-> "zero", prefix |-> "ok"]}
(* the code (bit string) and the value (limbs) of every class: handed to the driver once, as the    *)
(* variable tab of the initial state (it is not part of the view and is emptied by the first step); *)
(* the driver joins it to the history steps by class                                                *)
BigKSeq == <<31, 47, 48, 53, 63, 64, 100>>
BigPatSeq == <<"zeros", "ones", "alt", "ones0">>
BigTab == [i \in 1..Len(BigKSeq) |-> [j \in 1..Len(BigPatSeq) |->
             LET c == [k |-> BigKSeq[i], pat |-> BigPatSeq[j]] IN
             [k |-> c.k, pat |-> c.pat, code |-> BigCode(c), val |-> BigValue(c)]]]
ASSUME BigTabComplete == BigClasses = {[k |-> BigKSeq[i], pat |-> BigPatSeq[j]] : i \in 1..Len(BigKSeq), j \in 1..Len(BigPatSeq)}
Ends == {"clean", "trail", "cut"}

(* predicted outcome if the byte string ends cleanly here / after one more plain EOS unit *)
PlainEOS == [k |-> "EOS", offs |-> "zero", prefix |-> "ok"]
FinOut(s) == IF Live(s) THEN Finish(s, "clean").out ELSE s.out
CloseWith(s) == IF Live(s) THEN Step(s, PlainEOS) ELSE s

Init == st = Start /\ ended = FALSE /\ pre = Start /\ inp = [k |-> "INIT"] /\ hist = <<>> /\ tab = BigTab

Feed(u) == /\ ~ended /\ Live(st) /\ Len(hist) < MaxLen
           /\ (HasBig(u) => inp \in PlainUnits \cup {[k |-> "INIT"]})
           /\ (HasBig(inp) => u \in PlainUnits /\ u.k = "EOS")
           /\ st' = Step(st, u) /\ ended' = FALSE
           /\ pre' = st /\ inp' = u
           /\ hist' = Append(hist, [u |-> u, out |-> st'.out, dev |-> DeviationNegativeLength(u),
                                     fin |-> FinOut(st'), closed |-> FinOut(CloseWith(st'))])
           /\ tab' = <<>>
End(how) == /\ ~ended /\ Len(hist) >= 1
            /\ st' = IF Live(st) THEN Finish(st, how) ELSE st
            /\ ended' = TRUE /\ pre' = st /\ inp' = [k |-> "END", how |-> how]
            /\ hist' = Append(hist, [u |-> inp', out |-> st'.out, dev |-> FALSE,
                                      fin |-> st'.out, closed |-> st'.out])
            /\ tab' = <<>>
Next == (\E u \in (IF WithBig THEN Units \cup BigUnits ELSE Units) : Feed(u)) \/ (\E h \in Ends : End(h))
Spec == Init /\ [][Next]_vars
View == <<pre, inp, st, ended>>

Fed == [i \in 1..(IF ended THEN Len(hist) - 1 ELSE Len(hist)) |-> hist[i].u]

(* the fold (code structure) computes the same outcome as the recursive run *)
FoldAgree == ~ended => st = Run(Fed, Len(Fed))
(* premise characterised: a history parses to completion iff it is well-formed and ends cleanly *)
CompleteIff == ended => ((st.out = "complete") <=> (WellFormed(Fed) /\ inp.how = "clean"))
(* nothing is read after a failure *)
Absorbing == [][~Live(st) /\ ~ended => st'.out = st.out]_vars
(* the codes of the huge-value classes: well-formed, read back completely by the reader's loop, and  *)
(* with the closed forms their names promise                                                        *)
ASSUME BigCodesSound ==
  \A c \in BigClasses :
     LET code == BigCode(c) v == BigValue(c) IN
     /\ BWellFormed(v) /\ ReadsAs(code, c.k, c)
     /\ BLe(BSub(BPow2(c.k), <<1>>), v) /\ BLt(BAdd(v, <<1>>), BPow2(c.k + 1))
     /\ (c.pat = "zeros" => BEq(BAdd(v, <<1>>), BPow2(c.k)))
     /\ (c.pat = "ones"  => BEq(BAdd(v, <<2>>), BPow2(c.k + 1)))
     /\ (c.pat = "ones0" => BEq(BAdd(v, <<3>>), BPow2(c.k + 1)))
(* distinct classes are distinct values *)
ASSUME BigCodesDistinct == \A c, d \in BigClasses : c # d => ~BEq(BigValue(c), BigValue(d))
OutcomeTotal == st.out \in {"open", "boundary", "raises", "eof", "complete"}
=============================================================================
