----------------------------- MODULE TestCaseGen -----------------------------
(* Concurrent execution of the worker commands emitted by `vc2-test-case-generator         *)
(* --parallel` on one shared output tree (property C24: any order / any interleaving of     *)
(* the commands produces exactly the files of the serial run).                             *)
(*                                                                                         *)
(* Prog[w] is the list of file operations of worker command w.  For the real instance it   *)
(* is EXTRACTED from strace logs of the real command (harness/drivers/c24.py writes the     *)
(* module TestCaseGenData); semantics of the operations: TestCaseGenOps.                   *)
(* TLC explores every interleaving (at the granularity of single system calls, including   *)
(* the individual steps inside os.makedirs) of every group of workers in GroupSeq.          *)
EXTENDS TestCaseGenOps, TestCaseGenData
(* TestCaseGenData defines   Prog     == <<ops of worker 1, ops of worker 2, ...>>           *)
(*                           GroupSeq == <<group 1, group 2, ...>>  (increasing worker ids)  *)
(* spec/TestCaseGenData.tla is a small hand-written instance (so that the module parses and *)
(* can be explored on its own); at check time the driver replaces it by the instance it has *)
(* extracted from the real commands.  (A plain definition rather than `CONSTANT Prog` with   *)
(* `Prog <- ...` in the cfg: TLC re-evaluates substituted constants at every use -- measured *)
(* 12 271 evaluations of the operation table for 123 states -- but caches definitions.)      *)

CONSTANT Reduce      \* TRUE: partial-order reduction (a worker whose next step is independent of
                     \* all others runs first); FALSE: every interleaving of every step

VARIABLES gi,        \* index of the group being explored
          fs,        \* the shared file system
          loc,       \* loc[w]: local state of worker w of the group
          ser,       \* (constant during a behaviour) the tree left by running the group serially
          alo,       \* (constant during a behaviour) alo[w]: what w observes when it runs alone
          shr        \* (constant during a behaviour) [paths |-> paths touched by >= 2 workers of the
                     \*  group, norem |-> no worker of the group removes or renames anything]

vars == <<gi, fs, loc, ser, alo, shr>>
Grp == GroupSeq[gi]
Ws  == SeqRange(Grp)

(* The serial run of the group and the run of each member alone on an empty tree (the      *)
(* situation its operation list was recorded in) are computed once per group, in Init,     *)
(* with the same step function the interleaving uses (TLC does not cache recursive         *)
(* constant operators, hence variables).                                                   *)
Alone(w) == RunW(EmptyFs, L0, w, Prog[w])

Init == /\ gi \in 1..Len(GroupSeq)
        /\ fs = EmptyFs
        /\ loc = [w \in SeqRange(GroupSeq[gi]) |-> L0]
        /\ ser = RunSeq(EmptyFs, GroupSeq[gi], Prog, <<>>)
        /\ alo = [w \in SeqRange(GroupSeq[gi]) |-> Alone(w).l]
        /\ shr = [paths |-> SharedPaths(Prog, SeqRange(GroupSeq[gi])),
                  norem |-> NoRemovals(Prog, SeqRange(GroupSeq[gi]))]

Cur(w) == Prog[w][loc[w].pc]

(* partial-order reduction: the independent steps (see TestCaseGenOps!IndepStep) commute    *)
(* with everything the others can do and their outcome cannot be influenced by the others,  *)
(* so it is enough to run the smallest worker that has one; when nobody has, branch fully.  *)
Indep(w) == Running(loc[w], Prog[w]) /\ IndepStep(fs, loc[w], Cur(w), shr.paths, shr.norem)
Sched(w) == ~Reduce \/ LET I == {v \in Ws : Indep(v)} IN I = {} \/ (w \in I /\ \A v \in I : w <= v)

Act(w, kinds) ==
  /\ Running(loc[w], Prog[w])
  /\ Sched(w)
  /\ Cur(w).k \in kinds
  /\ LET r == StepOp(fs, loc[w], w, Cur(w)) IN
     /\ fs' = r.fs
     /\ loc' = [loc EXCEPT ![w] = r.l]
  /\ UNCHANGED <<gi, ser, alo, shr>>

(* one action per kind of step of the code: directory creation (makedirs in cli.py's        *)
(* output_*_test_case(s)), file creation / writing / closing (open(..., "w"/"wb"),          *)
(* file_format.write), reading back (open(bitstream, "rb")), observation, removal, exit     *)
MkDir(w)   == Act(w, {"makedirs", "mkdir", "guardmk"})
Create(w)  == Act(w, {"creat", "put"})
Write(w)   == Act(w, {"write"})
Close(w)   == Act(w, {"closew"})
Read(w)    == Act(w, {"openr"})
Observe(w) == Act(w, {"stat", "listdir"})
Move(w)    == Act(w, {"rename", "link", "unlink", "rmdir"})
Exit(w)    == Act(w, {"exit"})

AnyMkDir   == \E w \in Ws : MkDir(w)
AnyCreate  == \E w \in Ws : Create(w)
AnyWrite   == \E w \in Ws : Write(w)
AnyClose   == \E w \in Ws : Close(w)
AnyRead    == \E w \in Ws : Read(w)
AnyObserve == \E w \in Ws : Observe(w)
AnyMove    == \E w \in Ws : Move(w)
AnyExit    == \E w \in Ws : Exit(w)
Next == AnyMkDir \/ AnyCreate \/ AnyWrite \/ AnyClose \/ AnyRead \/ AnyObserve \/ AnyMove \/ AnyExit

Spec == Init /\ [][Next]_vars

AllDone == \A w \in Ws : Done(loc[w], Prog[w])

(* --- C24 on the model ------------------------------------------------------------------- *)
\* no operation of any worker fails, whatever the others did in between
NoOpFails == \A w \in Ws : loc[w].fail \in {"", "DIVERGED"}
\* the model's serial run is meaningful only if no worker's recorded observations are contradicted in it
SerialKnown == \A w \in Ws : ser.ls[w].fail = ""
\* when all workers have finished the tree is the tree of the serial run
FinalIsSerial == (AllDone /\ SerialKnown) => fs = ser.fs
\* validity of the extracted operation lists: whatever a worker observes of the tree (own
\* read-backs, stand-alone existence tests, listings) is what it observed when it ran alone
ObsStable == /\ \A w \in Ws : loc[w].fail # "DIVERGED" /\ IsPrefix(loc[w].obs, alo[w].obs)
             /\ \A w \in Ws : ser.ls[w].fail # "DIVERGED"
\* sanity (assumption of the extraction, not the property): each worker alone succeeds
AloneOk == \A w \in Ws : alo[w].fail = "" /\ Done(alo[w], Prog[w])
=============================================================================
