--------------------------- MODULE PictureGenTrace ---------------------------
(* Validation of what the real picture generators produced (C22).  One line per (format,     *)
(* generator): the requested video parameters and coding mode, the number of pictures, their *)
(* picture numbers and, per picture, the size of each component (rows, columns, ragged?),    *)
(* the minimum and maximum sample of each component and whether every sample is an integer.  *)
EXTENDS PictureGenOps, Json, IOUtils, TLCExt

Log == ndJsonDeserialize(IOEnv.TRACE_FILE)
VARIABLES l, bad
tvars == <<l, bad>>

V(c, a) == [c |-> c, alarm |-> a]

Clause(e) ==
  LET c == Coded(e.req, e.pcm) IN
  IF ~RegularFormat(e.req, e.pcm)                                   THEN V("SpecIrregularInput", FALSE)
  ELSE IF e.exc # ""                                                THEN V("Raised", TRUE)
  ELSE IF e.n < 1                                                   THEN V("NoPictures", TRUE)
  ELSE IF e.pcm = 1 /\ e.n % 2 # 0                                  THEN V("OddNumberOfFields", TRUE)
  ELSE IF e.nums # [j \in 1..e.n |-> j - 1]                         THEN V("Numbering", TRUE)
  ELSE IF \E j \in 1..Len(e.pics) : ~DimsOK(e.pics[j], c)           THEN V("Dimensions", TRUE)
  ELSE IF \E j \in 1..Len(e.pics) : ~e.pics[j].allint               THEN V("NotInteger", TRUE)
  ELSE IF \E j \in 1..Len(e.pics) : ~RangeOK(e.pics[j], c)          THEN V("OutOfRange", TRUE)
  ELSE IF Len(e.pics) # e.n                                         THEN V("SpecRecording", FALSE)
  ELSE IF e.n # ExpectedCount(e.gen, e.pcm)                         THEN V("SpecCount", FALSE)
  ELSE IF e.gen = "mid_gray" /\ \E j \in 1..e.n : ~MidGrayOK(e.pics[j], c) THEN V("SpecMidGray", FALSE)
  ELSE V("ok", FALSE)

TraceInit == l = 1 /\ bad = <<>>
TraceNext == /\ l <= Len(Log)
             /\ l' = l + 1
             /\ LET e == Log[l] c == Clause(e) IN
                bad' = IF c.c = "ok" THEN bad
                       ELSE Append(bad, [tid |-> e.tid, line |-> l, clause |-> c.c, alarm |-> c.alarm])
TraceSpec == TraceInit /\ [][TraceNext]_tvars
Report == l = Len(Log) + 1 => PrintT(<<"BAD", ToJson(bad)>>)
AllConsumed == TLCGet("stats").diameter - 1 = Len(Log)
=============================================================================
