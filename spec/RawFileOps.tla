----------------------------- MODULE RawFileOps -----------------------------
(* Pure operators for the raw picture file format (vc2_conformance/file_format.py,         *)
(* dimensions_and_depths.py) and the picture comparison tool (scripts/vc2_picture_compare), *)
(* property C23.  Shared by RawFile.tla (exhaustive model) and RawFileTrace.tla.           *)
(*                                                                                          *)
(* A format is [w, h, sub, fields, dl, dc]: frame size, colour-difference subsampling      *)
(* ("444" | "422" | "420"), pictures-are-fields, luma / colour-difference bit depths.       *)
(* A sample is a sequence of base-256 digits, least significant first (TLC integers are    *)
(* 32 bit; depths go up to 64), of length Bps(depth).                                       *)
EXTENDS Integers, Sequences, FiniteSets

Comps == <<"Y", "C1", "C2">>

CeilDiv8(d) == (d + 7) \div 8
RECURSIVE Pow2AtLeast(_, _)
Pow2AtLeast(k, n) == IF k >= n THEN k ELSE Pow2AtLeast(2 * k, n)
\* bytes per sample: whole bytes rounded up to a power of two
Bps(d) == Pow2AtLeast(1, CeilDiv8(d))

IsPow2(n) == \E k \in 0..7 : n = 2^k

LumaW(f)   == f.w
LumaH(f)   == IF f.fields THEN f.h \div 2 ELSE f.h
ChromaW(f) == IF f.sub \in {"422", "420"} THEN f.w \div 2 ELSE f.w
ChromaH(f) == LET ch == IF f.sub = "420" THEN f.h \div 2 ELSE f.h IN IF f.fields THEN ch \div 2 ELSE ch

\* the standard's divisibility requirements (the driver only builds such formats)
ValidFormat(f) ==
  /\ f.sub \in {"422", "420"} => f.w % 2 = 0
  /\ f.h % ((IF f.sub = "420" THEN 2 ELSE 1) * (IF f.fields THEN 2 ELSE 1)) = 0
  /\ LumaH(f) >= 1 /\ ChromaH(f) >= 1 /\ ChromaW(f) >= 1

W(f, c)     == IF c = "Y" THEN LumaW(f) ELSE ChromaW(f)
H(f, c)     == IF c = "Y" THEN LumaH(f) ELSE ChromaH(f)
Depth(f, c) == IF c = "Y" THEN f.dl ELSE f.dc
Count(f, c) == W(f, c) * H(f, c)
PlaneBytes(f, c) == Count(f, c) * Bps(Depth(f, c))
FileSize(f) == PlaneBytes(f, "Y") + PlaneBytes(f, "C1") + PlaneBytes(f, "C2")
\* does the file have bits that carry no sample information?
HasPadding(f) == Bps(f.dl) * 8 > f.dl \/ Bps(f.dc) * 8 > f.dc

(* ---- samples as digit sequences ---- *)
TopDigitLimit(d) == IF d % 8 = 0 THEN 256 ELSE 2^(d % 8)
\* digits denote a value below 2^d
InRangeDigits(s, d) == /\ Len(s) = Bps(d)
                       /\ \A i \in 1..Len(s) : s[i] \in 0..255
                       /\ \A i \in (CeilDiv8(d) + 1)..Len(s) : s[i] = 0
                       /\ s[CeilDiv8(d)] < TopDigitLimit(d)
\* what read_picture keeps of Bps(d) raw bytes: bytes above the top one cleared, top one masked
ReadSample(bytes, d) == [i \in 1..Len(bytes) |->
                           IF i > CeilDiv8(d) THEN 0
                           ELSE IF i = CeilDiv8(d) THEN bytes[i] % TopDigitLimit(d)
                           ELSE bytes[i]]
MaxSample(d)  == [i \in 1..Bps(d) |-> IF i > CeilDiv8(d) THEN 0 ELSE IF i = CeilDiv8(d) THEN TopDigitLimit(d) - 1 ELSE 255]
ZeroSample(d) == [i \in 1..Bps(d) |-> 0]
AltSample(d, odd) == ReadSample([i \in 1..Bps(d) |-> IF odd THEN 170 ELSE 85], d)

RECURSIVE Flatten(_)
Flatten(ss) == IF ss = <<>> THEN <<>> ELSE Head(ss) \o Flatten(Tail(ss))

(* ---- the comparison tool ---- *)
\* exit code: first differing kind in the order parameters, coding mode, picture number, samples
ExitCode(sameParams, sameMode, sameNumber, counts) ==
  IF ~sameParams THEN 1
  ELSE IF ~sameMode THEN 2
  ELSE IF ~sameNumber THEN 3
  ELSE IF \E c \in DOMAIN counts : counts[c] > 0 THEN 4
  ELSE 0

DiffCount(a, b) == Cardinality({i \in 1..Len(a) : a[i] # b[i]})

(* ---- directory mode of the comparison tool ------------------------------------------------ *)
(* Two directories hold the same set of picture numbers; the pairs are compared in increasing  *)
(* number order, codes[i] being the verdict (ExitCode above) of the i-th pair.  The property:  *)
(* the tool says "identical" (exit 0) exactly when EVERY pair is identical.  What it exits     *)
(* with otherwise (the verdict of the last differing pair) and the summary line are the tool's *)
(* documented behaviour, carried here as predictions that are compared but only logged.        *)
DirAllIdentical(codes) == \A i \in 1..Len(codes) : codes[i] = 0
DirExit(codes) ==
  LET nz == {i \in 1..Len(codes) : codes[i] # 0}
  IN IF nz = {} THEN 0 ELSE codes[CHOOSE i \in nz : \A j \in nz : j <= i]
DirNumDifferent(codes) == Cardinality({i \in 1..Len(codes) : codes[i] # 0})
=============================================================================
