---------------------------- MODULE SliceGeometry ----------------------------
(* Slice geometry of a VC-2 picture (property C13), modelled the way the codec state is    *)
(* filled in by the code: the sequence header fixes the component sizes (video format),    *)
(* transform_parameters fixes the transform depths, slice_parameters fixes the slice       *)
(* counts (and, for low-delay pictures, the slice_bytes fraction).  After slice_parameters *)
(* every function of vc2_conformance/pseudocode/slice_sizes.py is determined; the model    *)
(* computes the design's tables in `out` and TLC checks the C13 predicates on them for     *)
(* every state of the box.                                                                 *)
(*                                                                                         *)
(* Two uses (two cfgs):                                                                    *)
(*   mc/SliceGeometry.cfg   exhaustive check of the invariants (no VIEW)                   *)
(*   mc/SliceGeometryG.cfg  VIEW ClassView + -dump: one concrete representative per        *)
(*                          abstract class of configurations; the driver runs the real     *)
(*                          code on every representative (G direction)                     *)
EXTENDS SliceGeometryOps, TLC

CONSTANTS MaxW, MaxH,        \* luma sizes 1..MaxW x 1..MaxH
          MaxD, MaxDho,      \* dwt_depth 0..MaxD, dwt_depth_ho 0..MaxDho
          MaxS,              \* slices_x, slices_y 1..MaxS
          MaxNum, MaxDen     \* slice_bytes numerator / denominator 1..Max (0: no low-delay step)

VARIABLES stage,   \* "start" | "format" | "transform" | "sliced" | "ld"
          lw, lh,  \* luma size
          fmt,     \* colour difference sampling "444" | "422" | "420"
          d, dho,  \* transform depths
          sx, sy,  \* slice counts
          num, den,\* low-delay slice_bytes fraction
          out      \* the design's tables for the current configuration

vars == <<stage, lw, lh, fmt, d, dho, sx, sy, num, den, out>>

Formats == {"444", "422", "420"}
CW(w, f) == IF f = "444" THEN w ELSE w \div 2        \* set_coding_parameters (11.6.2)
CH(h, f) == IF f = "420" THEN h \div 2 ELSE h

Comps == {"Y", "C"}
W(c) == IF c = "Y" THEN lw ELSE CW(lw, fmt)
H(c) == IF c = "Y" THEN lh ELSE CH(lh, fmt)

SwOf(w) == [l \in Levels(d, dho) |-> SubbandWidth(w, d, dho, l)]
ShOf(h) == [l \in Levels(d, dho) |-> SubbandHeight(h, d, dho, l)]

(* the design's numbers for the current configuration: subband extents per component and  *)
(* level (kept in `out` so that the dump carries them to the driver), slice bounds derived  *)
Dims == [c \in Comps |-> [sw |-> SwOf(W(c)), sh |-> ShOf(H(c))]]
Bounds(c, l) == [L |-> LoSeq(out.dims[c].sw[l], sx), R |-> HiSeq(out.dims[c].sw[l], sx),
                 T |-> LoSeq(out.dims[c].sh[l], sy), B |-> HiSeq(out.dims[c].sh[l], sy)]

Init == /\ stage = "start" /\ lw = 0 /\ lh = 0 /\ fmt = "444" /\ d = 0 /\ dho = 0
        /\ sx = 0 /\ sy = 0 /\ num = 0 /\ den = 0 /\ out = <<>>

VideoFormat(w, h, f) ==
  /\ stage = "start" /\ CW(w, f) >= 1 /\ CH(h, f) >= 1
  /\ lw' = w /\ lh' = h /\ fmt' = f /\ stage' = "format"
  /\ UNCHANGED <<d, dho, sx, sy, num, den, out>>

TransformParameters(dd, hh) ==
  /\ stage = "format"
  /\ d' = dd /\ dho' = hh /\ stage' = "transform"
  /\ UNCHANGED <<lw, lh, fmt, sx, sy, num, den, out>>

SliceParameters(nx, ny) ==
  /\ stage = "transform"
  /\ sx' = nx /\ sy' = ny /\ stage' = "sliced"
  /\ out' = [dims |-> Dims, cw |-> CW(lw, fmt), ch |-> CH(lh, fmt),
             flag |-> SameDimsFlag(lw, lh, CW(lw, fmt), CH(lh, fmt), d, dho, nx, ny)]
  /\ UNCHANGED <<lw, lh, fmt, d, dho, num, den>>

SliceBytesLD(n, m) ==
  /\ stage = "sliced"
  /\ num' = n /\ den' = m /\ stage' = "ld"
  /\ out' = [dims |-> out.dims, cw |-> out.cw, ch |-> out.ch, flag |-> out.flag, bytes |-> BytesSeq(sx * sy, n, m)]
  /\ UNCHANGED <<lw, lh, fmt, d, dho, sx, sy>>

Next == \/ \E w \in 1..MaxW, h \in 1..MaxH, f \in Formats : VideoFormat(w, h, f)
        \/ \E dd \in 0..MaxD, hh \in 0..MaxDho : TransformParameters(dd, hh)
        \/ \E nx \in 1..MaxS, ny \in 1..MaxS : SliceParameters(nx, ny)
        \/ \E n \in 1..MaxNum, m \in 1..MaxDen : SliceBytesLD(n, m)

Spec == Init /\ [][Next]_vars

Geo == stage \in {"sliced", "ld"}

(* ----------------------------- C13, clause by clause ----------------------------------- *)
SubbandDimsMatch ==
  Geo => \A c \in Comps : DimsMatchPadded(out.dims[c].sw, out.dims[c].sh, W(c), H(c), d, dho)

SlicesPartition ==
  Geo => \A c \in Comps : \A l \in Levels(d, dho) :
           LET t == Bounds(c, l) IN
           /\ Partition(t.L, t.R, out.dims[c].sw[l])
           /\ Partition(t.T, t.B, out.dims[c].sh[l])

(* cross-check of the predicate itself: Partition really means "each coefficient once" *)
SlicesCoverOnce ==
  Geo => \A c \in Comps : \A l \in Levels(d, dho) :
           LET t == Bounds(c, l) IN
           /\ CoversOnce(t.L, t.R, out.dims[c].sw[l])
           /\ CoversOnce(t.T, t.B, out.dims[c].sh[l])

(* two-dimensional consequence used by the slice coders: the slice areas of a band add up  *)
(* to the band's area                                                                      *)
RECURSIVE SumF(_, _, _)
SumF(f, i, n) == IF i > n THEN 0 ELSE f[i] + SumF(f, i + 1, n)
SliceAreasSum ==
  Geo => \A c \in Comps : \A l \in Levels(d, dho) :
           LET t == Bounds(c, l)
               ws == [i \in 1..sx |-> t.R[i] - t.L[i]]
               hs == [j \in 1..sy |-> t.B[j] - t.T[j]] IN
           SumF(ws, 1, sx) * SumF(hs, 1, sy) = out.dims[c].sw[l] * out.dims[c].sh[l]

AllSame ==
  \A c \in Comps : \A l \in Levels(d, dho) :
    LET t == Bounds(c, l) IN AllEqual(t.L, t.R) /\ AllEqual(t.T, t.B)

FlagIffSame == Geo => (out.flag = AllSame)

LDBytes == stage = "ld" => /\ BytesNonNeg(out.bytes)
                           /\ BytesSum(out.bytes, sx * sy, num, den)

(* the padded picture the encoder produces (dwt_pad_addition) is the top level of 13.2.3 *)
TopLevelIsPadded ==
  Geo => \A c \in Comps :
           /\ SubbandWidth(W(c), d, dho, d + dho + 1) = PaddedWidth(W(c), d, dho)
           /\ SubbandHeight(H(c), d, dho, d + dho + 1) = PaddedHeight(H(c), d, dho)

(* ----------------------- abstract classes for the G direction -------------------------- *)
(* which of the four DC extents divide evenly, whether slices outnumber coefficients,      *)
(* whether the sizes are multiples of the transform scale                                  *)
ClassView ==
  IF ~Geo THEN <<stage, lw, lh, fmt, d, dho, 0, 0, 0, 0, <<>>>>
  ELSE <<stage, 0, 0, fmt, d, dho, sx, sy, num, den,
         <<lw % Pow2(d + dho) = 0, lh % Pow2(d) = 0,
           CW(lw, fmt) % Pow2(d + dho) = 0, CH(lh, fmt) % Pow2(d) = 0,
           out.dims["Y"].sw[0] % sx = 0, out.dims["Y"].sh[0] % sy = 0,
           out.dims["C"].sw[0] % sx = 0, out.dims["C"].sh[0] % sy = 0,
           sx > out.dims["Y"].sw[0], sy > out.dims["Y"].sh[0],
           sx > out.dims["C"].sw[0], sy > out.dims["C"].sh[0]>>>>
=============================================================================
