------------------------------ MODULE BitIOOps ------------------------------
(* Pure operators for the bit-level I/O of vc2_conformance (property C20), shared by        *)
(*   BitIO.tla       exhaustive model (writer programs, reader programs over every file)    *)
(*   BitIOTrace.tla  validation of traces recorded from the real readers/writers            *)
(*   SerDes.tla      (C21) which drives a writer and a reader of this kind                  *)
(*                                                                                           *)
(* A file is a sequence of bits whose length is a multiple of 8 (bit 1 = MSB of byte 0).    *)
(* Structured like vc2_conformance/bitstream/io.py: BitstreamWriter keeps a *current byte*  *)
(* that is committed when full or on flush; seek() flushes, then starts the target byte     *)
(* from zero (so it clobbers the other bits of that byte: documented behaviour).            *)
EXTENDS Integers, Sequences

Abs(v) == IF v < 0 THEN -v ELSE v
Max(a, b) == IF a > b THEN a ELSE b

RECURSIVE BitLen(_)
BitLen(n) == IF n <= 0 THEN 0 ELSE 1 + BitLen(n \div 2)

(* MSB-first n-bit expansion of v (v < 2^n) *)
ToBits(v, n) == [i \in 1..n |-> (v \div 2^(n - i)) % 2]

RECURSIVE FromBitsTo(_, _)
FromBitsTo(s, n) == IF n = 0 THEN 0 ELSE 2 * FromBitsTo(s, n - 1) + s[n]
FromBits(s) == FromBitsTo(s, Len(s))

Zeros(n) == [i \in 1..n |-> 0]
Ones(n)  == [i \in 1..n |-> 1]

(* ---- exp-Golomb (A.4.3/A.4.4): interleaved  0 b_k 0 b_{k-1} ... 0 b_1 1  of v+1 = 1 b_k..b_1 *)
UintCode(v) == LET b == ToBits(v + 1, BitLen(v + 1))
                   k == Len(b) - 1 IN
               [i \in 1..(2 * k + 1) |-> IF i = 2 * k + 1 THEN 1
                                         ELSE IF i % 2 = 1 THEN 0 ELSE b[1 + i \div 2]]
SintCode(v) == UintCode(Abs(v)) \o (IF v = 0 THEN <<>> ELSE IF v < 0 THEN <<1>> ELSE <<0>>)
UintLen(v) == 2 * (BitLen(v + 1) - 1) + 1
SintLen(v) == UintLen(Abs(v)) + (IF v = 0 THEN 0 ELSE 1)

RECURSIVE BytesToBits(_)
BytesToBits(bs) == IF bs = <<>> THEN <<>> ELSE ToBits(Head(bs), 8) \o BytesToBits(Tail(bs))

(* ======================================================================================= *)
(* Writer.  w = [buf, pos, on, rem]                                                        *)
(*   buf  what the file holds once flushed (BitstreamWriter's file with its current byte    *)
(*        overlaid), pos = 8*byte_offset + (7 - next_bit), on/rem = bounded block flag and  *)
(*        bits remaining (may go negative).                                                 *)
(* BitstreamWriter assembles a *current byte* that starts from 0 whenever a byte is entered *)
(* (after completing the previous one, or after seek) and is committed when full or on      *)
(* flush/seek.  In terms of buf: placing a bit at the first position of a byte zeroes the   *)
(* rest of that byte; seeking into the middle of a byte zeroes that whole byte (documented: *)
(* "will overwrite any bits already set in that byte to 0").  WRef below is the literal     *)
(* (file, current byte) machine; BitIORef.tla checks that the two agree step by step.       *)
Min(a, b) == IF a < b THEN a ELSE b
W0 == [buf |-> <<>>, pos |-> 0, on |-> FALSE, rem |-> 0]
WPos(w) == w.pos

(* overlay the non-empty bit string s at bit position pos *)
PlaceBits(buf, pos, s) ==
  LET e == pos + Len(s)
      lastEnd == 8 * ((e + 7) \div 8)
      n == Max(Len(buf), lastEnd) IN
  [i \in 1..n |-> IF i > pos /\ i <= e THEN s[i - pos]
                  ELSE IF i > e /\ i <= lastEnd /\ 8 * ((i - 1) \div 8) >= pos THEN 0
                  ELSE IF i <= Len(buf) THEN buf[i] ELSE 0]

(* index of the first 0 in s after position k, or 0 *)
FirstZeroAfter(s, k) == IF \E j \in (k + 1)..Len(s) : s[j] = 0
                        THEN CHOOSE j \in (k + 1)..Len(s) : s[j] = 0 /\ \A i \in (k + 1)..(j - 1) : s[i] = 1
                        ELSE 0

(* write the bits s one after the other (write_bit each): inside a block the counter is decremented *)
(* first; past the end a 1 is dropped and a 0 raises ValueError (the primitive stops there).        *)
(* `placed` = number of bits that really went into the buffer (always a prefix of s).               *)
WBits(w, s) ==
  LET n == Len(s)
      k == IF w.on THEN Min(Max(w.rem, 0), n) ELSE n
      z == IF w.on THEN FirstZeroAfter(s, k) ELSE 0
      b == IF k > 0 THEN PlaceBits(w.buf, w.pos, SubSeq(s, 1, k)) ELSE w.buf IN
  [w |-> [w EXCEPT !.buf = b, !.pos = w.pos + k, !.rem = IF w.on THEN w.rem - (IF z > 0 THEN z ELSE n) ELSE w.rem],
   err |-> IF z > 0 THEN "ValueError" ELSE "none", placed |-> k]

Refuse(w, e) == [w |-> w, err |-> e, placed |-> 0]

(* seek arithmetic shared by reader and writer *)
SeekRefused(on, rem, delta) == on /\ delta > 0 /\ rem - delta < 0
SeekRem(on, rem, delta) ==
  IF ~on THEN rem
  ELSE IF rem <= 0 /\ delta = 0 THEN rem
  ELSE IF rem < 0 /\ delta < 0 THEN -delta
  ELSE rem - delta

WSeek(w, B, b) ==
  LET delta == (8 * B + 7 - b) - w.pos IN
  IF SeekRefused(w.on, w.rem, delta) THEN Refuse(w, "Exception")
  ELSE [w |-> [w EXCEPT !.pos = 8 * B + 7 - b, !.rem = SeekRem(w.on, w.rem, delta),
                        !.buf = IF b = 7 THEN w.buf ELSE PlaceBits(w.buf, 8 * B, Zeros(8))],
        err |-> "none", placed |-> 0]

(* ---- the literal machine of bitstream/io.py (reference for BitIORef.tla) ------------------------ *)
(* x = [file, cur, nb, boff, on, rem]: cur = byte being assembled, nb = 7 - next_bit                  *)
Zero8 == Zeros(8)
X0 == [file |-> <<>>, cur |-> Zero8, nb |-> 0, boff |-> 0, on |-> FALSE, rem |-> 0]
PutByte(f, k, c) ==
  LET n == Max(Len(f), 8 * (k + 1)) IN
  [i \in 1..n |-> IF i > 8 * k /\ i <= 8 * k + 8 THEN c[i - 8 * k]
                  ELSE IF i <= Len(f) THEN f[i] ELSE 0]
XPos(x) == 8 * x.boff + x.nb
XRaw(x, b) ==
  LET c == [x.cur EXCEPT ![x.nb + 1] = b] IN
  IF x.nb = 7
  THEN [x EXCEPT !.file = PutByte(x.file, x.boff, c), !.cur = Zero8, !.nb = 0, !.boff = x.boff + 1]
  ELSE [x EXCEPT !.cur = c, !.nb = x.nb + 1]
XBit(x, b) ==
  IF x.on
  THEN LET x1 == [x EXCEPT !.rem = x.rem - 1] IN
       IF x1.rem <= -1
       THEN [w |-> x1, err |-> IF b = 0 THEN "ValueError" ELSE "none", placed |-> 0]
       ELSE [w |-> XRaw(x1, b), err |-> "none", placed |-> 1]
  ELSE [w |-> XRaw(x, b), err |-> "none", placed |-> 1]
RECURSIVE XBitsAcc(_, _, _, _)
XBitsAcc(x, s, i, n) ==
  IF i > Len(s) THEN [w |-> x, err |-> "none", placed |-> n]
  ELSE LET a == XBit(x, s[i]) IN
       IF a.err # "none" THEN [w |-> a.w, err |-> a.err, placed |-> n]
       ELSE XBitsAcc(a.w, s, i + 1, n + a.placed)
XBits(x, s) == XBitsAcc(x, s, 1, 0)
XFlush(x) == IF x.nb # 0 THEN [x EXCEPT !.file = PutByte(x.file, x.boff, x.cur)] ELSE x
XSeek(x, B, b) ==
  LET delta == (8 * B + 7 - b) - XPos(x) IN
  IF SeekRefused(x.on, x.rem, delta) THEN Refuse(x, "Exception")
  ELSE LET f == XFlush(x) IN
       [w |-> [f EXCEPT !.boff = B, !.cur = Zero8, !.nb = 7 - b, !.rem = SeekRem(x.on, x.rem, delta)],
        err |-> "none", placed |-> 0]

(* The bit string a write primitive emits, or "oor" flag.  o = [op, n, v, s]                 *)
(*   bit: v ; nbits: n,v ; uintlit: n (bytes), v ; uint/sint: v ; bitarray: n, s ; bytes: n, s (byte values) *)
OutOfRange(o) ==
  CASE o.op = "nbits"    -> o.v < 0 \/ BitLen(o.v) > o.n
    [] o.op = "uintlit"  -> o.v < 0 \/ BitLen(o.v) > 8 * o.n
    [] o.op = "uint"     -> o.v < 0
    [] o.op = "bitarray" -> Len(o.s) > o.n
    [] o.op = "bytes"    -> Len(o.s) > o.n
    [] OTHER -> FALSE

Emit(o) ==
  CASE o.op = "bit"      -> <<o.v>>
    [] o.op = "nbits"    -> ToBits(o.v, o.n)
    [] o.op = "uintlit"  -> ToBits(o.v, 8 * o.n)
    [] o.op = "uint"     -> UintCode(o.v)
    [] o.op = "sint"     -> SintCode(o.v)
    [] o.op = "bitarray" -> o.s \o Zeros(o.n - Len(o.s))
    [] o.op = "bytes"    -> BytesToBits(o.s) \o Zeros(8 * (o.n - Len(o.s)))

ValueOps == {"bit", "nbits", "uintlit", "uint", "sint", "bitarray", "bytes"}

WOp(w, o) ==
  CASE o.op \in ValueOps -> IF OutOfRange(o) THEN Refuse(w, "OutOfRangeError") ELSE WBits(w, Emit(o))
    [] o.op = "bbegin" -> IF w.on THEN Refuse(w, "Exception")
                          ELSE [w |-> [w EXCEPT !.on = TRUE, !.rem = o.n], err |-> "none", placed |-> 0]
    [] o.op = "bend"   -> IF ~w.on THEN Refuse(w, "Exception")
                          ELSE [w |-> [w EXCEPT !.on = FALSE, !.rem = 0], err |-> "none", placed |-> 0]
    [] o.op = "seek"   -> WSeek(w, o.n, o.v)
    [] o.op = "flush"  -> [w |-> w, err |-> "none", placed |-> 0]      \* buf already is the flushed view

XOp(x, o) ==
  CASE o.op \in ValueOps -> IF OutOfRange(o) THEN Refuse(x, "OutOfRangeError") ELSE XBits(x, Emit(o))
    [] o.op = "bbegin" -> IF x.on THEN Refuse(x, "Exception")
                          ELSE [w |-> [x EXCEPT !.on = TRUE, !.rem = o.n], err |-> "none", placed |-> 0]
    [] o.op = "bend"   -> IF ~x.on THEN Refuse(x, "Exception")
                          ELSE [w |-> [x EXCEPT !.on = FALSE, !.rem = 0], err |-> "none", placed |-> 0]
    [] o.op = "seek"   -> XSeek(x, o.n, o.v)
    [] o.op = "flush"  -> [w |-> XFlush(x), err |-> "none", placed |-> 0]

(* value returned by bounded_block_end *)
Unused(on, rem) == IF on THEN Max(0, rem) ELSE 0

(* ======================================================================================= *)
(* Reader over file f.  r = [pos, on, rem]                                                 *)
R0 == [pos |-> 0, on |-> FALSE, rem |-> 0]

RRaw(f, r) == IF r.pos >= Len(f) THEN [r |-> r, v |-> 0, err |-> "EOF"]
              ELSE [r |-> [r EXCEPT !.pos = r.pos + 1], v |-> f[r.pos + 1], err |-> "none"]

RBit(f, r) ==
  IF r.on
  THEN LET r1 == [r EXCEPT !.rem = r.rem - 1] IN
       IF r1.rem <= -1 THEN [r |-> r1, v |-> 1, err |-> "none"] ELSE RRaw(f, r1)
  ELSE RRaw(f, r)

(* read n bits MSB first; v = sequence of the bits read so far (also on EOF).  Closed form of n    *)
(* successive RBit (RSeqRef below is the literal loop; BitIORef.tla checks they agree):              *)
(* the first k = min(max(rem,0), n) bits are real, the rest are the 1s past the block end.           *)
RSeq(f, r, n) ==
  LET k == IF r.on THEN Min(Max(r.rem, 0), n) ELSE n
      avail == Max(0, Len(f) - r.pos) IN
  IF k > avail
  THEN [r |-> [r EXCEPT !.pos = r.pos + avail, !.rem = IF r.on THEN r.rem - (avail + 1) ELSE r.rem],
        v |-> SubSeq(f, r.pos + 1, r.pos + avail), err |-> "EOF"]
  ELSE [r |-> [r EXCEPT !.pos = r.pos + k, !.rem = IF r.on THEN r.rem - n ELSE r.rem],
        v |-> SubSeq(f, r.pos + 1, r.pos + k) \o Ones(n - k), err |-> "none"]

RECURSIVE RSeqAcc(_, _, _, _)
RSeqAcc(f, r, n, acc) ==
  IF n = 0 THEN [r |-> r, v |-> acc, err |-> "none"]
  ELSE LET a == RBit(f, r) IN
       IF a.err # "none" THEN [r |-> a.r, v |-> acc, err |-> a.err]
       ELSE RSeqAcc(f, a.r, n - 1, Append(acc, a.v))
RSeqRef(f, r, n) == RSeqAcc(f, r, n, <<>>)

RNBits(f, r, n) == LET a == RSeq(f, r, n) IN [r |-> a.r, v |-> IF a.err = "none" THEN FromBits(a.v) ELSE 0, err |-> a.err]

RECURSIVE RUintAcc(_, _, _)
RUintAcc(f, r, val) ==
  LET a == RBit(f, r) IN
  IF a.err # "none" THEN [r |-> a.r, v |-> 0, err |-> a.err]
  ELSE IF a.v = 1 THEN [r |-> a.r, v |-> val - 1, err |-> "none"]
  ELSE LET b == RBit(f, a.r) IN
       IF b.err # "none" THEN [r |-> b.r, v |-> 0, err |-> b.err]
       ELSE RUintAcc(f, b.r, 2 * val + b.v)
RUint(f, r) == RUintAcc(f, r, 1)

RSint(f, r) ==
  LET a == RUint(f, r) IN
  IF a.err # "none" \/ a.v = 0 THEN a
  ELSE LET s == RBit(f, a.r) IN
       IF s.err # "none" THEN [r |-> s.r, v |-> 0, err |-> s.err]
       ELSE [r |-> s.r, v |-> IF s.v = 1 THEN -a.v ELSE a.v, err |-> "none"]

RSeek(r, B, b) ==
  LET delta == (8 * B + 7 - b) - r.pos IN
  IF SeekRefused(r.on, r.rem, delta) THEN [r |-> r, v |-> 0, err |-> "Exception"]
  ELSE [r |-> [r EXCEPT !.pos = 8 * B + 7 - b, !.rem = SeekRem(r.on, r.rem, delta)], v |-> 0, err |-> "none"]

(* Reader primitive mirrored from a write op (same op names).  Sequences are returned as bit *)
(* sequences (bitarray, bytes), everything else as an integer.                               *)
ROp(f, r, o) ==
  CASE o.op = "bit"      -> RBit(f, r)
    [] o.op = "nbits"    -> RNBits(f, r, o.n)
    [] o.op = "uintlit"  -> RNBits(f, r, 8 * o.n)
    [] o.op = "uint"     -> RUint(f, r)
    [] o.op = "sint"     -> RSint(f, r)
    [] o.op = "bitarray" -> RSeq(f, r, o.n)
    [] o.op = "bytes"    -> RSeq(f, r, 8 * o.n)
    [] o.op = "bbegin"   -> IF r.on THEN [r |-> r, v |-> 0, err |-> "Exception"]
                            ELSE [r |-> [r EXCEPT !.on = TRUE, !.rem = o.n], v |-> 0, err |-> "none"]
    [] o.op = "bend"     -> IF ~r.on THEN [r |-> r, v |-> 0, err |-> "Exception"]
                            ELSE [r |-> [r EXCEPT !.on = FALSE, !.rem = 0], v |-> Unused(r.on, r.rem), err |-> "none"]
    [] o.op = "bendflush" -> \* bounded_block_end() then read the unused bits (what serdes / flush_inputb do)
                            IF ~r.on THEN [r |-> r, v |-> 0, err |-> "Exception"]
                            ELSE LET a == RSeq(f, [r EXCEPT !.on = FALSE, !.rem = 0], Unused(r.on, r.rem)) IN
                                 [r |-> a.r, v |-> Unused(r.on, r.rem), err |-> a.err]
    [] o.op = "align"    -> \* byte_align (A.2.4); modelled outside bounded blocks only
                            LET k == (8 - (r.pos % 8)) % 8 IN
                            [r |-> [r EXCEPT !.pos = r.pos + k], v |-> k, err |-> "none"]
    [] o.op = "seek"     -> RSeek(r, o.n, o.v)

(* the value a mirrored read must return for a successful write op *)
Written(o) ==
  CASE o.op \in {"bit", "nbits", "uintlit", "uint", "sint"} -> o.v
    [] o.op \in {"bitarray", "bytes"} -> Emit(o)
=============================================================================
