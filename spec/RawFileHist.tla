---------------------------- MODULE RawFileHist ----------------------------
(* Long histories of ONE process using many raw-file formats one after the other (C23).   *)
(* RawFileProc.tla enumerates short histories exhaustively (every history needs a process *)
(* of its own); here each process follows a SCHEDULE that is long enough to put every      *)
(* format of a family after every other one.  For the pivot format g = Family[p] the        *)
(* process uses                                                                             *)
(*        g, Family[1], g, Family[2], g, ... , g, Family[N], g                              *)
(* so that over the N processes (one per pivot), for EVERY ordered pair (g, f) of formats   *)
(* of the family: f is used immediately after g, g immediately after f, and g has been     *)
(* used before f is used for the first time in that process (ScheduleCovers, checked by     *)
(* TLC).  With the family "every depth 1..64 on one shape, everything else equal" this is   *)
(* every depth after every other in one process, in both orders, including the pairs        *)
(* (d, d + 61) whose excursions 2^d - 1 are congruent modulo 2^61 - 1.                       *)
(* Each use is the programme of RawFileProc (Canon): a picture object of some container     *)
(* kind is created, written to file a, read back, a variant object is written to file b,    *)
(* read back, and the two files are compared.  The predictions are those of RawFileProc     *)
(* and do not mention the history: that is the statement.                                   *)
EXTENDS RawFileOps, TLC

CONSTANTS Shapes,      \* set of [w, h, sub, fields]
          DepthPairs   \* set of <<luma depth, colour-difference depth>>

ShapeF0    == {[w |-> 2, h |-> 2, sub |-> "422", fields |-> FALSE]}
SizesSmall == {<<1, 1>>, <<2, 2>>, <<3, 3>>, <<4, 4>>, <<2, 4>>}
SizesMore  == SizesSmall \cup {<<6, 4>>, <<2, 8>>, <<5, 2>>, <<8, 2>>}
ShapesOver(S) == {s \in [w : {x[1] : x \in S}, h : {x[2] : x \in S}, sub : {"444", "422", "420"}, fields : BOOLEAN] : <<s.w, s.h>> \in S}
ShapesSmall == ShapesOver(SizesSmall)
ShapesMore  == ShapesOver(SizesMore)
DepthsEvery    == {<<d, d>> : d \in 1..64}
DepthsEveryAlt == DepthsEvery \cup {<<d, 65 - d>> : d \in 1..64}
DepthsTwo      == {<<10, 8>>, <<8, 10>>}

Fmt(s, dp) == [w |-> s.w, h |-> s.h, sub |-> s.sub, fields |-> s.fields, dl |-> dp[1], dc |-> dp[2]]
Formats == {f \in {Fmt(s, dp) : s \in Shapes, dp \in DepthPairs} : ValidFormat(f)}
N == Cardinality(Formats)
\* the family in a fixed order
SubIx(s) == IF s = "444" THEN 0 ELSE IF s = "422" THEN 1 ELSE 2
Key(f) == ((((f.dl * 65 + f.dc) * 16 + f.w) * 16 + f.h) * 3 + SubIx(f.sub)) * 2 + (IF f.fields THEN 1 ELSE 0)
Family == [i \in 1..N |-> CHOOSE f \in Formats : Cardinality({g \in Formats : Key(g) < Key(f)}) = i - 1]

\* the formats used by the process with pivot p, in order
L == 2 * N + 1
Schedule(p) == [j \in 1..L |-> IF j % 2 = 1 THEN Family[p] ELSE Family[j \div 2]]
ScheduleCovers ==
  \A p, q \in 1..N :
     /\ \E j \in 1..(L - 1) : Schedule(p)[j] = Family[p] /\ Schedule(p)[j + 1] = Family[q]
     /\ \E j \in 1..(L - 1) : Schedule(p)[j] = Family[q] /\ Schedule(p)[j + 1] = Family[p]
     /\ p # q => \E j \in 1..L : Schedule(p)[j] = Family[p] /\ \A i \in 1..j : Schedule(p)[i] # Family[q]
ASSUME ScheduleCovers

KindSeq == <<"list", "npobj", "npint", "nprows">>

VARIABLES p,     \* the pivot of this process (0: not started)
          n,     \* uses completed in this process
          rank,  \* position in the programme of the current use
          last,  \* prediction for the step just taken
          inp
vars == <<p, n, rank, last, inp>>

\* the formats used earlier in this process: determined by the schedule, the predictions ignore it
Used == IF p = 0 THEN <<>> ELSE SubSeq(Schedule(p), 1, n)
Cur  == Schedule(p)[n + 1]
NoLast == [op |-> "none"]

Init == p = 0 /\ n = 0 /\ rank = 0 /\ last = NoLast /\ inp = [a |-> "init"]

Start == \E q \in 1..N : p = 0 /\ p' = q /\ UNCHANGED <<n, rank>> /\ last' = NoLast /\ inp' = [a |-> "start", pivot |-> Family[q]]

Cnt(same) == [c \in {"Y", "C1", "C2"} |-> IF same \/ c = "C1" THEN 0 ELSE 1]

Use ==
  /\ p > 0 /\ n < L
  /\ rank' = (rank + 1) % 8
  /\ n' = IF rank = 7 THEN n + 1 ELSE n
  /\ UNCHANGED p
  /\ CASE rank = 0 -> last' = NoLast /\ inp' = [a |-> "new", f |-> Cur, k |-> KindSeq[(n % 4) + 1]]
       [] rank = 1 -> last' = [op |-> "write", s |-> "a", objv |-> 1, args |-> TRUE, size |-> FileSize(Cur)] /\ inp' = [a |-> "write", s |-> "a"]
       [] rank = 2 -> last' = [op |-> "read", s |-> "a", v |-> 1, meta |-> TRUE] /\ inp' = [a |-> "read", s |-> "a"]
       [] rank = 3 -> last' = NoLast /\ inp' = [a |-> "vary"]
       [] rank = 4 -> last' = [op |-> "write", s |-> "b", objv |-> 2, args |-> TRUE, size |-> FileSize(Cur)] /\ inp' = [a |-> "write", s |-> "b"]
       [] rank = 5 -> last' = [op |-> "read", s |-> "b", v |-> 2, meta |-> TRUE] /\ inp' = [a |-> "read", s |-> "b"]
       [] rank = 6 -> last' = [op |-> "cmp", s |-> "a", t |-> "b", exit |-> ExitCode(TRUE, TRUE, TRUE, Cnt(FALSE)), counts |-> Cnt(FALSE)]
                      /\ inp' = [a |-> "cmp", s |-> "a", t |-> "b"]
       [] rank = 7 -> last' = NoLast /\ inp' = [a |-> "done"]

Next == Start \/ Use
Spec == Init /\ [][Next]_vars

\* what is read back is what was written, the caller's object denotes what it did, whatever was used before
RoundTripWhateverTheHistory == /\ last.op = "read"  => last.v = (IF last.s = "a" THEN 1 ELSE 2) /\ last.meta
                               /\ last.op = "write" => last.objv = (IF last.s = "a" THEN 1 ELSE 2) /\ last.args /\ last.size > 0
                               /\ last.op = "cmp"   => last.exit = 4
HistoryGrows == Len(Used) = n /\ (p > 0 /\ n < L => Cur \in Formats)
=============================================================================
