--------------------------- MODULE QuantisationOps ---------------------------
(* Quantisation of SMPTE ST 2042-1 section 13.3 (property C12): pure operators shared by   *)
(* Quantisation.tla (exhaustive model) and QuantTrace.tla (validation of values recorded   *)
(* from vc2_conformance/pseudocode/quantization.py).                                       *)
(* Two layers: the DESIGN (QF, QO, Fq, Iq: the formulas of the standard) and the PROPERTY   *)
(* as predicates over any numbers, however obtained (SignKept, WithinStep, Increasing).    *)
(* Plain TLC integers are 32-bit: the design formulas are usable for index <= MaxPlainQI;  *)
(* beyond that the trace spec verifies recorded quotients with BigNat (q*d <= n < (q+1)*d). *)
EXTENDS Integers, Sequences

Abs(x) == IF x < 0 THEN -x ELSE x
Sgn(x) == IF x < 0 THEN -1 ELSE IF x > 0 THEN 1 ELSE 0

MaxPlainQI == 47          \* 665857 * 2^(47 \div 4) + 58854 < 2^31

(* ------------------------------ design: 13.3.2 ----------------------------------------- *)
QBase(i) == 2 ^ (i \div 4)
QF(i) == LET b == QBase(i) IN
         CASE i % 4 = 0 -> 4 * b
           [] i % 4 = 1 -> (503829 * b + 52958) \div 105917
           [] i % 4 = 2 -> (665857 * b + 58854) \div 117708
           [] OTHER     -> (440253 * b + 32722) \div 65444
QO(i) == IF i = 0 THEN 1 ELSE IF i = 1 THEN 2 ELSE (QF(i) + 1) \div 2

(* ------------------------------ design: 13.3.1 ----------------------------------------- *)
Fq(x, i) == Sgn(x) * ((4 * Abs(x)) \div QF(i))                         \* informative note 1
Iq(q, i) == IF q = 0 THEN 0 ELSE Sgn(q) * ((Abs(q) * QF(i) + QO(i) + 2) \div 4)

(* effective index of a subband: the slice's qindex lowered by the quantisation matrix *)
EffectiveIndex(qindex, m) == IF qindex - m < 0 THEN 0 ELSE qindex - m

(* ============================ the property, on numbers ================================= *)
(* x: coefficient, r: its reconstruction after quantise/dequantise, f: the quantisation    *)
(* factor in force (quarter steps)                                                         *)
SignKept(x, r)      == r = 0 \/ Sgn(r) = Sgn(x)
WithinStep(x, r, f) == 4 * Abs(r - x) < f
LosslessAt0(i, x, r) == i = 0 => r = x

(* s: a sequence of values indexed from index `first`; strictly increasing from `from` on *)
IncreasingFrom(s, first, from) ==
  \A k \in 1..(Len(s) - 1) : (first + k - 1 >= from) => s[k] < s[k + 1]
=============================================================================
