------------------------------ MODULE Autofill ------------------------------
(* Automatic field filling of bitstream descriptions (vc2_conformance/bitstream/            *)
(* vc2_autofill.py), property C07.                                                         *)
(*                                                                                         *)
(* The machine builds a stream description unit by unit, like a user of the library does,  *)
(* and carries the *fold* state the code carries while walking the description            *)
(* (autofill_picture_number: last picture number; autofill_major_version: version needed  *)
(* so far, mode of the governing sequence header).  `AutofillOps` holds the declarative    *)
(* definition (what the output must contain); the invariants below state that the fold     *)
(* agrees with it and that the definition has the properties C07 names.                    *)
(*                                                                                         *)
(* Alphabet: data units {SH, LD/HQ picture, LD/HQ first fragment, LD/HQ later fragment,     *)
(* padding, auxiliary data, EOS} with every auto-capable field (next/previous parse        *)
(* offset, picture number, major_version) explicit (incl. "wrong" values and the 2^16/2^32 *)
(* carry boundaries) / AUTO / omitted, and the version-relevant features (profile, preset  *)
(* indices on both sides of each threshold, asymmetric wavelet index / depth, ETP present  *)
(* without asymmetry).  Only units that keep the description serialisable are enabled      *)
(* (premise of C07).  hist = (done, cur): the description itself; exp = the expected       *)
(* output fields of the description closed with a default end-of-sequence unit.            *)
EXTENDS AutofillOps

CONSTANTS MaxUnits,     \* units per sequence before the closing EOS
          MaxSeqs,
          Cross         \* TRUE: full cross product of the field choices of a unit (thorough tier);
                        \* FALSE: each group of choices crossed only with the groups it interacts with

VARIABLES done,    \* finished sequences (each a sequence of units ending in EOS)
          cur,     \* units of the sequence being written
          lastPN,  \* fold: last picture number (W32)
          need,    \* fold: major version required by the units so far
          pre,     \* abstract state before the last step  (VIEW)
          inp,     \* the unit added by the last step        (VIEW)
          exp      \* expectations for Closed (not in VIEW)

vars == <<done, cur, lastPN, need, pre, inp, exp>>

(* ---- alphabet --------------------------------------------------------------------------- *)
E(n, v) == n :> [m |-> "exp", i |-> v]
A(n)    == n :> [m |-> "auto"]
None    == <<>>
Join(S, T) == {a @@ b : a \in S, b \in T}

NpoAll == {None, A("npo"), E("npo", Zero32), E("npo", W32(13)), E("npo", W32(40)), E("npo", Max32)}
PpoAll == {None, A("ppo"), E("ppo", Zero32), E("ppo", W32(7))}
\* next and previous offsets are filled by independent code paths
OffsAll   == IF Cross THEN Join(NpoAll, PpoAll) ELSE NpoAll \cup PpoAll
OffsBasic == IF Cross THEN {None, A("npo") @@ A("ppo")} ELSE {None}

VerCh  == {None, A("ver"), E("ver", 1), E("ver", 2), E("ver", 3)}
ProfCh == {None, E("profile", 0), E("profile", 3)}
Cs0    == E("cs_flag", TRUE) @@ E("cs_idx", 0)
PresetCh ==
  {None, E("fr_flag", TRUE)}
  \cup {E("fr_flag", TRUE) @@ E("fr_idx", v) : v \in {11, 12}}
  \cup {E("sr_flag", TRUE) @@ E("sr_idx", v) : v \in {4, 5}}
  \cup {E("cs_flag", TRUE) @@ E("cs_idx", v) : v \in {4, 5}}
  \cup {Cs0 @@ E("prim_flag", TRUE) @@ E("prim_idx", v) : v \in {3, 4}}
  \cup {Cs0 @@ E("mat_flag", TRUE) @@ E("mat_idx", v) : v \in {3, 4}}
  \cup {Cs0 @@ E("tf_flag", TRUE) @@ E("tf_idx", v) : v \in {3, 4}}
SHBase == E("pc", 0) @@ E("fs_flag", TRUE) @@ E("fs_w", 2) @@ E("fs_h", 2)   \* tiny pictures
SHFeat == IF Cross THEN Join(Join(VerCh, ProfCh), PresetCh)
          ELSE Join(VerCh, ProfCh) \cup Join(Join({None, A("ver")}, {E("profile", 0)}), PresetCh)
SHFields == Join({SHBase}, Join(SHFeat, OffsBasic) \cup OffsAll)

PnCh == {None, A("pn"), E("pn", Zero32), E("pn", W32(5)), E("pn", W32(65535)), E("pn", Max32)}
TPCh == {None, E("wi", 1),
         E("ai_flag", FALSE),                                   \* ETP given, symmetric
         E("ai_flag", TRUE) @@ E("wi_ho", 4),                   \* flag set, same filter
         E("ai_flag", TRUE) @@ E("wi_ho", 1),                   \* asymmetric filter
         E("wi", 1) @@ E("ai_flag", TRUE) @@ E("wi_ho", 1),
         E("at_flag", TRUE),                                    \* depth omitted (0)
         E("at_flag", TRUE) @@ E("depth_ho", 0),
         E("at_flag", TRUE) @@ E("depth_ho", 1)}                \* asymmetric depth
PicFeat == IF Cross THEN Join(PnCh, TPCh) ELSE PnCh \cup Join({None, A("pn")}, TPCh)
PicFields(pc) == Join({E("pc", pc)}, Join(PicFeat, OffsBasic) \cup OffsAll)
FragNFields(pc) == Join({E("pc", pc) @@ E("fsc", 1)}, Join(PnCh, OffsBasic) \cup OffsAll)

PadNpo == {None, A("npo"), E("npo", W32(13)), E("npo", W32(40))}
PadUnits == {[f |-> E("pc", pc) @@ b[1] @@ o, blen |-> b[2]] :
               pc \in {32, 48},
               b \in {<<None, 0>>, <<E("bytes", ""), 0>>, <<E("bytes", "616263"), 3>>},
               o \in IF Cross THEN Join(PadNpo, PpoAll) ELSE PadNpo \cup PpoAll}
EOSUnits == {[f |-> p @@ o, blen |-> 0] : p \in {None, E("pc", 16)}, o \in OffsAll}
DefaultEOS == [f |-> None, blen |-> 0]

Plain(F) == {[f |-> x, blen |-> 0] : x \in F}
Units == Plain(SHFields) \cup Plain(PicFields(200)) \cup Plain(PicFields(232))
         \cup Plain(PicFields(204)) \cup Plain(PicFields(236))
         \cup Plain(FragNFields(204)) \cup Plain(FragNFields(236))
         \cup PadUnits \cup EOSUnits

(* ---- the description closed into something that can be serialised ---------------------- *)
Closed == IF cur = <<>> THEN done ELSE Append(done, Append(cur, DefaultEOS))

ExpectUnit(s, i) ==
  [haspn |-> HasPN(s[i]),
   pn    |-> IF HasPN(s[i]) THEN ExpectedPN(s, i) ELSE Zero32,
   ver   |-> IF IsSH(s[i]) THEN ExpectedVer(s, i) ELSE 0,
   npo   |-> NpoTag(s, i),
   ppo   |-> PpoTag(s, i),
   etp   |-> ETPRemoved(s, i),
   gov   |-> GovVersion(s, i)]
ExpectStream(st) == [k \in 1..Len(st) |-> [i \in 1..Len(st[k]) |-> ExpectUnit(st[k], i)]]

(* ---- abstract (VIEW) state -------------------------------------------------------------- *)
GovMode(s) == LET g == Governing(s, Len(s) + 1) IN
              IF g = 0 THEN "none"
              ELSE IF IsAuto(s[g], "ver") THEN "auto" ELSE "exp"
GovExplicit(s) == LET g == Governing(s, Len(s) + 1) IN
              IF g # 0 /\ IsExp(s[g], "ver") THEN s[g].f["ver"].i ELSE 0
Abs == [pnc  |-> IF lastPN = Max32 THEN "max" ELSE IF lastPN.lo = 65535 THEN "carry" ELSE "other",
        need |-> need,
        gov  |-> GovMode(cur), gv |-> GovExplicit(cur),
        tpld |-> \E j \in 1..Len(cur) : HasTP(cur[j]) /\ ~IsHQ(cur[j]),
        tphq |-> \E j \in 1..Len(cur) : HasTP(cur[j]) /\ IsHQ(cur[j]),
        first |-> cur = <<>>,
        nd   |-> Len(done)]

(* Two-phase stepping keeps the graph linear in the alphabet: a state reached by AddUnit has   *)
(* the view (pre, unit, post) -- one dumped state with a shortest history per abstract          *)
(* transition -- and its only successor is the settled state whose view is the abstract state  *)
(* alone, from which the alphabet is expanded once.                                            *)
NilPre == [nd |-> -1]
NilInp == [f |-> None, blen |-> -1]

Init == /\ done = <<>> /\ cur = <<>> /\ lastPN = Max32 /\ need = 1
        /\ pre = NilPre /\ inp = NilInp /\ exp = <<>>

(* One step of the user: append data unit u.  The fold updates mirror the code's loops. *)
AddUnit(u) ==
  /\ inp = NilInp
  /\ Len(done) < MaxSeqs
  /\ Len(cur) < MaxUnits \/ IsEOS(u)
  /\ LET s == Append(cur, u) IN
     /\ SeqSerialisable(IF IsEOS(u) THEN s ELSE Append(s, DefaultEOS))
     /\ IF IsEOS(u)
        THEN /\ done' = Append(done, s) /\ cur' = <<>>
             /\ lastPN' = Max32 /\ need' = 1                    \* both restart per sequence
        ELSE /\ done' = done /\ cur' = s
             /\ lastPN' = IF HasPN(u) THEN PNOf(u, lastPN) ELSE lastPN
             /\ need' = IF UnitVersion(u) > need THEN UnitVersion(u) ELSE need
  /\ pre' = Abs /\ inp' = u
  /\ exp' = ExpectStream(Closed')

Settle == /\ inp # NilInp
          /\ pre' = NilPre /\ inp' = NilInp
          /\ UNCHANGED <<done, cur, lastPN, need, exp>>

\* (the guard is outside the quantifier so that transition states do not enumerate the alphabet)
Next == Settle \/ (inp = NilInp /\ \E u \in Units : AddUnit(u))
Spec == Init /\ [][Next]_vars

View == <<pre, inp, Abs>>

(* ---- model-checked statements ----------------------------------------------------------- *)
\* the incremental fold (structure of the code) computes the declarative definition
FoldAgree == /\ lastPN = LastPN(cur, Len(cur))
             /\ need = MinVersion(cur)

AllClosed == {Closed[k] : k \in 1..Len(Closed)}
PicIdx(s) == {i \in 1..Len(s) : HasPN(s[i])}
PrevPic(s, j) == MaxOf({i \in PicIdx(s) : i < j})

\* C07: explicit picture numbers / versions are what the output must carry
ExplicitKept ==
  \A s \in AllClosed : \A i \in 1..Len(s) :
     /\ (HasPN(s[i]) /\ IsExp(s[i], "pn") => ExpectedPN(s, i) = s[i].f["pn"].i)
     /\ (IsSH(s[i]) /\ IsExp(s[i], "ver") => ExpectedVer(s, i) = s[i].f["ver"].i)

\* C07: automatic numbers count up from the previous picture, restart at 0 per sequence,
\* wrap at 2^32, and are repeated across the fragments of one picture
Numbering ==
  \A s \in AllClosed : \A j \in PicIdx(s) :
     IsAuto(s[j], "pn") =>
       IF \E i \in PicIdx(s) : i < j
       THEN LET p == ExpectedPN(s, PrevPic(s, j)) IN
            ExpectedPN(s, j) = IF Increments(s[j])
                               THEN (IF p = Max32 THEN Zero32 ELSE Inc32(p)) ELSE p
       ELSE ExpectedPN(s, j) = IF Increments(s[j]) THEN Zero32 ELSE Max32

\* C07: the automatic version is the minimum the features require
VersionMinimal ==
  \A s \in AllClosed :
     /\ MinVersion(s) \in {1, 2, 3}
     /\ \A i \in 1..Len(s) : MinVersion(s) >= UnitVersion(s[i])
     /\ (MinVersion(s) > 1 => \E i \in 1..Len(s) : MinVersion(s) \in Implications(s[i]))

\* dropping user-supplied extended transform parameters never loses an asymmetric transform,
\* and what remains matches the version announced by the governing header
ETPConsistent ==
  \A s \in AllClosed : \A i \in 1..Len(s) :
     /\ (ETPRemoved(s, i) => ~Asymmetric(s[i]) /\ GovVersion(s, i) < 3)
     /\ (HasTP(s[i]) /\ GivesETP(s[i]) /\ ~ETPRemoved(s, i) => GovVersion(s, i) >= 3)

Serialisable == \A s \in AllClosed : SeqSerialisable(s)
=============================================================================
