---------------------------- MODULE ConstraintCsv ----------------------------
(* Constraint tables read from CSV (read_constraints_from_csv), property C17 last sentence:*)
(* "Tables read from CSV contain the values, ranges, 'any' and ditto cells written in the  *)
(* file."  A behaviour starts from one of a few row lists already read (PreRowSeqs), reads *)
(* further rows: data rows (key + abstract cells, possibly fewer or more cells than there  *)
(* are columns), comment rows and blank rows.  The driver renders the rows as CSV text     *)
(* (spelling variants of any/TRUE/FALSE/ditto and white space are chosen by the driver),   *)
(* has the real reader read the file and compares the denoted sets cell by cell.           *)
(* The cells of the table are value-set objects of their own (ValueSets.tla): Touch models *)
(* a caller adding a value to one cell of the row read last; every other cell -- a ditto   *)
(* cell's left neighbour in particular -- still holds what the file says.                  *)
EXTENDS ConstraintTableOps, TLC

CONSTANTS Keys, MaxCols, MaxLen,
          Items,      \* item alphabet
          TwoItems,   \* BOOLEAN: also cells listing two items
          Specials    \* subset of {"empty", "any", "ditto"}

ItemsRich  == {<<"v", 0, 0>>, <<"v", 2, 2>>, <<"r", 0, 1>>, <<"r", 1, 2>>, <<"r", 1, 1>>, <<"r", 0, 3>>,
               <<"b", 0, 0>>, <<"b", 1, 1>>}
ItemsMid   == {<<"v", 0, 0>>, <<"v", 2, 2>>, <<"r", 0, 1>>, <<"r", 1, 3>>, <<"b", 0, 0>>, <<"b", 1, 1>>}
ItemsPlain == {<<"v", 0, 0>>, <<"r", 1, 2>>}

Wide == (0 - 1)..4

CellAlphabet ==
       {[t |-> s, items |-> <<>>] : s \in Specials}
  \cup {[t |-> "items", items |-> <<i>>] : i \in Items}
  \cup (IF TwoItems THEN {[t |-> "items", items |-> <<i, j>>] : i \in Items, j \in Items} ELSE {})

CellSeqsOfLen(n) == [1..n -> CellAlphabet]

V(x)    == [t |-> "items", items |-> <<<<"v", x, x>>>>]
AnyCell == [t |-> "any", items |-> <<>>]
\* rows already read when a behaviour starts (the driver writes them at the top of the file)
PreRowSeqs == { <<>>,
                << [kind |-> "data", key |-> "k1", cells |-> <<V(1)>>] >>,
                << [kind |-> "data", key |-> "k2", cells |-> <<AnyCell>>],
                   [kind |-> "data", key |-> "k1", cells |-> <<V(1), [t |-> "items", items |-> <<<<"v", 2, 2>>, <<"v", 3, 3>>>>], V(0)>>] >> }

VARIABLES tab,   \* the table read so far (sequence of columns: key -> denotation)
          obs,   \* tab projected for the driver: per column, per key, [any, members within Wide]
          nread, \* rows read by the behaviour (after the pre-rows)
          pre, inp, hist

vars == <<tab, obs, nread, pre, inp, hist>>

Project(t) == [i \in 1..Len(t) |-> [k \in DOMAIN t[i] |-> [any |-> t[i][k].any, m |-> DenIn(t[i][k], Wide)]]]

Init == /\ hist \in PreRowSeqs /\ tab = ReadRowRecs(<<>>, hist) /\ obs = Project(tab)
        /\ nread = 0 /\ pre = tab /\ inp = [kind |-> "init"]

TouchVals == {4}

Read(r) == /\ nread < MaxLen /\ nread' = nread + 1 /\ inp.kind # "touch"
           /\ tab' = IF r.kind = "data" THEN ApplyRow(tab, r.key, r.cells) ELSE tab
           /\ obs' = Project(tab')
           /\ pre' = tab /\ inp' = r /\ hist' = Append(hist, r)

DataRow    == \E key \in Keys, n \in 0..MaxCols : \E cells \in CellSeqsOfLen(n) :
                Read([kind |-> "data", key |-> key, cells |-> cells])
CommentRow == \E n \in 0..MaxCols : Read([kind |-> "comment", n |-> n])
BlankRow   == \E n \in 0..MaxCols : Read([kind |-> "blank", n |-> n])
\* The caller adds w to the last cell of the row just read (sharing is symmetric: a cell that shares state
\* with its left neighbour, with a cell of an earlier row or column shows it whichever of the two is added
\* to; rows of every length end in every kind of cell).  The row is part of the operation: how the cell was
\* written (ditto, values, ...) is what an implementation might make objects from.  Ends the behaviour.
Touch == \E w \in TouchVals :
  /\ inp.kind = "data" /\ Len(inp.cells) > 0
  /\ LET i == Len(inp.cells) IN
     /\ tab' = [tab EXCEPT ![i][inp.key] = DenAddValue(@, w)]
     /\ inp' = [kind |-> "touch", i |-> i, key |-> inp.key, w |-> w, row |-> inp.cells]
  /\ obs' = Project(tab')
  /\ UNCHANGED nread
  /\ pre' = tab /\ hist' = Append(hist, inp')
Next == DataRow \/ CommentRow \/ BlankRow \/ Touch
Spec == Init /\ [][Next]_vars

(* --- what "contain the values, ranges, any and ditto cells written in the file" means --- *)
\* every written cell of the last data row is in the table with the set it denotes
CellsPresent == inp.kind = "data" =>
  \A i \in 1..Len(inp.cells) :
     /\ i <= Len(tab) /\ inp.key \in DOMAIN tab[i]
     /\ LET c == inp.cells[i] IN
        CASE c.t = "any"   -> tab[i][inp.key].any
          [] c.t = "empty" -> tab[i][inp.key] = EmptyDen
          [] c.t = "ditto" -> tab[i][inp.key] = (IF i = 1 THEN EmptyDen ELSE tab[i - 1][inp.key])
          [] OTHER         -> /\ ~tab[i][inp.key].any
                              /\ \A it \in SeqRange(c.items) : (it[2]..it[3]) \subseteq tab[i][inp.key].s
                              /\ \A u \in tab[i][inp.key].s : \E it \in SeqRange(c.items) : it[2] <= u /\ u <= it[3]
\* nothing else changes: other keys / columns keep their sets, comment and blank rows change nothing
NothingElse ==
  /\ inp.kind \in {"comment", "blank"} => tab = pre
  /\ inp.kind = "data" =>
       /\ Len(tab) >= Len(pre)
       /\ \A i \in 1..Len(tab) : \A k \in DOMAIN tab[i] :
            (k # inp.key \/ i > Len(inp.cells)) => (i <= Len(pre) /\ k \in DOMAIN pre[i] /\ pre[i][k] = tab[i][k])

\* an addition to one cell shows in that cell and in no other
TouchLocal == inp.kind = "touch" =>
  /\ Len(tab) = Len(pre)
  /\ \A j \in 1..Len(tab) : /\ DOMAIN tab[j] = DOMAIN pre[j]
                             /\ \A k \in DOMAIN tab[j] :
                                  tab[j][k] = IF j = inp.i /\ k = inp.key THEN DenAddValue(pre[j][k], inp.w) ELSE pre[j][k]

View == <<pre, inp, tab>>
=============================================================================
