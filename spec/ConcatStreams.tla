--------------------------- MODULE ConcatStreams ---------------------------
(* Streams as concatenations of sequences (10.3: parse_stream = parse_sequence until the    *)
(* end of the stream, all decoder state except I/O reset between sequences).  Property C10. *)
(*                                                                                          *)
(* The archetype sequences are opaque here: archetype a is conformant alone iff Ok[a] and   *)
(* outputs NPics[a] pictures alone (for a non-conformant one: the pictures output before    *)
(* the validator rejects it).  Both tables are MEASURED on the implementation, one sequence *)
(* at a time; the specification says what every concatenation must then do.                 *)
EXTENDS Integers, Sequences, FiniteSets, TLC

CONSTANTS N, Ok, NPics, MaxSeqs

VARIABLES list,      \* the archetypes concatenated so far
          verdict,   \* "accept" while every sequence so far is conformant, else "reject"
          pics       \* expected output: sequence of <<archetype, k>> = k-th picture archetype outputs alone

vars == <<list, verdict, pics>>

PicsOf(a) == [k \in 1..NPics[a] |-> <<a, k>>]

Init == list = <<>> /\ verdict = "accept" /\ pics = <<>>

(* the validator stops at the first non-conformant sequence: later sequences are never read *)
AppendSeq(a) ==
  /\ Len(list) < MaxSeqs
  /\ list' = Append(list, a)
  /\ IF verdict = "accept"
     THEN /\ pics' = pics \o PicsOf(a)
          /\ verdict' = IF Ok[a] THEN "accept" ELSE "reject"
     ELSE UNCHANGED <<pics, verdict>>

Next == \E a \in 1..N : AppendSeq(a)
Spec == Init /\ [][Next]_vars

FirstBad == IF \E i \in 1..Len(list) : ~Ok[list[i]]
            THEN CHOOSE i \in 1..Len(list) : ~Ok[list[i]] /\ \A j \in 1..(i-1) : Ok[list[j]]
            ELSE Len(list) + 1
RECURSIVE SumPics(_, _)
SumPics(s, n) == IF n = 0 THEN 0 ELSE SumPics(s, n - 1) + NPics[s[n]]

(* C10 as invariants of the design *)
AcceptIffAllConformant == (verdict = "accept") = (\A i \in 1..Len(list) : Ok[list[i]])
PicturesAreConcatenation == Len(pics) = SumPics(list, IF FirstBad > Len(list) THEN Len(list) ELSE FirstBad)
\* appending or prepending conformant sequences never changes whether the rest is accepted
Independence == [][\A a \in 1..N : (AppendSeq(a) /\ Ok[a]) => verdict' = verdict]_vars
=============================================================================
