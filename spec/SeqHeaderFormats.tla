-------------------------- MODULE SeqHeaderFormats --------------------------
(* C15 -- every generated sequence header encodes exactly the requested video format.        *)
(*                                                                                           *)
(* The space of video formats "near" each base video format as a TLC choice machine: one     *)
(* action per dimension of the configuration, in a fixed order; at most MaxPerturb groups    *)
(* deviate from the chosen base format.  A completed choice (stage = Done) is one codec      *)
(* configuration: its record `out` (requested video parameters, picture coding mode, level   *)
(* and the non-video codec features a level needs) is what the driver hands to the real      *)
(* encoder (iter_sequence_headers); every header it yields is serialised, validated by the   *)
(* real validator and judged by SeqHeaderTrace.tla.                                          *)
(*                                                                                           *)
(* On the model itself TLC checks the design-level theorem (EncoderSound): every encoding    *)
(* the encoder design (SeqHeaderOps!SourceOptions, transcribed from encoder/                 *)
(* sequence_header.py) can emit for the configuration is well formed, decodes per 11.4 to    *)
(* exactly the requested parameters and is admitted by the level table.                      *)
EXTENDS SeqHeaderOps, TLC

CONSTANTS MaxPerturb,   \* how many groups may deviate from the base format
          RealLevels    \* TRUE: also every real level (column of the level table) admitting the format

VARIABLES stage,  \* index of the next dimension to choose
          f,      \* the choices made so far (small integer codes, 0 = "as the base format")
          out     \* the finished configuration (<<>> until stage = Done)

vars == <<stage, f, out>>

Dims == <<"base", "sz", "cd", "sc", "fr", "ar", "ca", "sr", "co", "pcm", "cfg">>
Done == Len(Dims) + 1
PerturbDims == {"sz", "cd", "sc", "fr", "ar", "ca", "sr", "co"}
NPert(g) == Cardinality({d \in PerturbDims : g[d] # 0})

(* ---------------------------------------------------------------- the perturbation options *)
NumFR == Len(FrameRates)
NumAR == Len(AspectRatios)
NumSR == Len(SignalRanges)
NumCS == Len(ColorSpecs)          \* presets 0..NumCS-1

Codes(d, g) ==
  LET B == Base(g.base) IN
  CASE d = "sz" -> 0..4
    [] d = "cd" -> {0} \cup {k \in 1..3 : k - 1 # B.color_diff_format_index}
    [] d = "sc" -> {0, 1}
    [] d = "fr" -> {0} \cup {i \in 1..NumFR : i # B.frame_rate_index} \cup {NumFR + 1, NumFR + 2}
    [] d = "ar" -> {0} \cup {i \in 1..NumAR : i # B.pixel_aspect_ratio_index} \cup {NumAR + 1, NumAR + 2}
    [] d = "ca" -> {0, 1}
    [] d = "sr" -> {0} \cup {i \in 1..NumSR : i # B.signal_range_index} \cup {NumSR + 1, NumSR + 2}
    [] d = "co" -> 0..(NumCS + 16)
    [] d = "pcm" -> {0, 1}

(* the requested video parameters of a (possibly partial) choice *)
VP(g) ==
  LET D  == Defaults(g.base)
      sz == CASE g.sz = 0 -> <<D.frame_width, D.frame_height>>
              [] g.sz = 1 -> <<D.frame_width, D.frame_height + 6>>
              [] g.sz = 2 -> <<D.frame_width + 16, D.frame_height + 8>>
              [] g.sz = 3 -> <<(D.frame_width * 3) \div 4, D.frame_height>>
              [] g.sz = 4 -> <<16, 8>>
      \* shrinking sizes take the clean area with them (it must stay inside the frame)
      ca0 == IF g.sz \in {3, 4} THEN <<sz[1], sz[2], 0, 0>>
             ELSE <<D.clean_width, D.clean_height, D.left_offset, D.top_offset>>
      ca == IF g.ca = 0 THEN ca0 ELSE <<ca0[1] - 4, ca0[2] - 2, ca0[3] + 3, ca0[4] + 1>>
      fr == IF g.fr = 0 THEN <<D.frame_rate_numer, D.frame_rate_denom>>
            ELSE IF g.fr <= NumFR THEN FrameRates[g.fr]
            ELSE IF g.fr = NumFR + 1 THEN <<7, 3>>
            ELSE <<D.frame_rate_numer, D.frame_rate_denom + 1>>      \* near miss of a preset
      ar == IF g.ar = 0 THEN <<D.pixel_aspect_ratio_numer, D.pixel_aspect_ratio_denom>>
            ELSE IF g.ar <= NumAR THEN AspectRatios[g.ar]
            ELSE IF g.ar = NumAR + 1 THEN <<3, 2>>
            ELSE <<D.pixel_aspect_ratio_numer + 1, D.pixel_aspect_ratio_denom>>
      sr == IF g.sr = 0 THEN <<D.luma_offset, D.luma_excursion, D.color_diff_offset, D.color_diff_excursion>>
            ELSE IF g.sr <= NumSR THEN SignalRanges[g.sr]
            ELSE IF g.sr = NumSR + 1 THEN <<1, 1000, 2, 500>>
            ELSE <<D.luma_offset, D.luma_excursion, D.color_diff_offset, D.color_diff_excursion + 1>>
      c0 == <<D.color_primaries_index, D.color_matrix_index, D.transfer_function_index>>
      co == IF g.co = 0 THEN c0
            ELSE IF g.co <= NumCS THEN ColorSpecs[g.co]
            ELSE IF g.co <= NumCS + 5 THEN <<g.co - NumCS - 1, c0[2], c0[3]>>
            ELSE IF g.co <= NumCS + 10 THEN <<c0[1], g.co - NumCS - 6, c0[3]>>
            ELSE <<c0[1], c0[2], g.co - NumCS - 11>>
  IN [frame_width |-> sz[1], frame_height |-> sz[2],
      color_diff_format_index |-> IF g.cd = 0 THEN D.color_diff_format_index ELSE g.cd - 1,
      source_sampling |-> IF g.sc = 0 THEN D.source_sampling ELSE 1 - D.source_sampling,
      top_field_first |-> D.top_field_first,
      frame_rate_numer |-> fr[1], frame_rate_denom |-> fr[2],
      pixel_aspect_ratio_numer |-> ar[1], pixel_aspect_ratio_denom |-> ar[2],
      clean_width |-> ca[1], clean_height |-> ca[2], left_offset |-> ca[3], top_offset |-> ca[4],
      luma_offset |-> sr[1], luma_excursion |-> sr[2], color_diff_offset |-> sr[3], color_diff_excursion |-> sr[4],
      color_primaries_index |-> co[1], color_matrix_index |-> co[2], transfer_function_index |-> co[3]]

(* a colour option must change something (otherwise it is the same format counted twice) *)
RealChange(d, g, k) ==
  d = "co" /\ k # 0 =>
     LET D == Defaults(g.base) w == VP([g EXCEPT !.co = k]) IN
     <<w.color_primaries_index, w.color_matrix_index, w.transfer_function_index>>
       # <<D.color_primaries_index, D.color_matrix_index, D.transfer_function_index>>

(* ------------------------------------------------- levels: codec features a column asks for *)
Pick(s, d) == IF s.any THEN d ELSE MinOf({r[1] : r \in s.rs})
Feat(c) ==
  LET prof == Pick(c.profile, 3)
      sx == Pick(c.slices_x, 1)
      sy == Pick(c.slices_y, 1)
      n  == Pick(c.slice_bytes_numerator, 4)
      m  == Pick(c.slice_bytes_denominator, 1)
  IN [level |-> Pick(c.level, 0),
      ft |-> [profile |-> prof, wavelet_index |-> Pick(c.wavelet_index, 0), dwt_depth |-> Pick(c.dwt_depth, 0),
              dwt_depth_ho |-> 0, slices_x |-> sx, slices_y |-> sy, custom_quant_matrix |-> 0,
              sb_num |-> IF prof = 0 THEN n ELSE 0, sb_den |-> IF prof = 0 THEN m ELSE 1,
              picture_bytes |-> IF prof = 0 THEN (n * sx * sy) \div m ELSE 0]]
UsableColumn(c) == ~c.level.any /\ (\A key \in {"profile", "wavelet_index", "dwt_depth", "slices_x", "slices_y"} :
                                      c[key].any \/ c[key].rs # {})
Cfgs == {Feat(LevelColumns[k]) : k \in {j \in 1..Len(LevelColumns) : UsableColumn(LevelColumns[j])}}

Produces(cf, vp, pcm) ==
  LET cols == MatchingColumns(CV(cf.level, pcm, vp, cf.ft))
  IN \E b \in AllowedBases(cols, vp) : Len(HeadersForBase(cols, vp, b)) > 0

(* -------------------------------------------------------------------------- choice machine *)
Init == /\ stage = 1
        /\ f = [base |-> 0, sz |-> 0, cd |-> 0, sc |-> 0, fr |-> 0, ar |-> 0, ca |-> 0, sr |-> 0, co |-> 0, pcm |-> 0]
        /\ out = <<>>

ChooseBase == /\ stage < Done /\ Dims[stage] = "base"
              /\ \E b \in Bases : f' = [f EXCEPT !.base = b]
              /\ stage' = stage + 1 /\ UNCHANGED out

Choose(d) == /\ stage < Done /\ Dims[stage] = d
             /\ \E k \in Codes(d, f) :
                  /\ RealChange(d, f, k)
                  /\ f' = [f EXCEPT ![d] = k]
                  /\ d \in PerturbDims => NPert(f') <= MaxPerturb
                  /\ d = "pcm" => Regular(VP(f'), k)
             /\ stage' = stage + 1 /\ UNCHANGED out

ChooseCfg == /\ stage < Done /\ Dims[stage] = "cfg"
             /\ LET vp == VP(f) IN
                \E cf \in Cfgs :
                  /\ cf.level = 0 \/ RealLevels
                  /\ Produces(cf, vp, f.pcm)
                  /\ out' = [vp |-> vp, pcm |-> f.pcm, level |-> cf.level, ft |-> cf.ft, f |-> f]
             /\ stage' = Done /\ UNCHANGED f

ChooseSz == Choose("sz")
ChooseCd == Choose("cd")
ChooseSc == Choose("sc")
ChooseFr == Choose("fr")
ChooseAr == Choose("ar")
ChooseCa == Choose("ca")
ChooseSr == Choose("sr")
ChooseCo == Choose("co")
ChoosePcm == Choose("pcm")

Next == \/ ChooseBase \/ ChooseSz \/ ChooseCd \/ ChooseSc \/ ChooseFr \/ ChooseAr
        \/ ChooseCa \/ ChooseSr \/ ChooseCo \/ ChoosePcm \/ ChooseCfg

Spec == Init /\ [][Next]_vars

(* ------------------------------------------------------------ the theorem TLC checks (C15) *)
HeaderRec(b, e) == [level |-> out.level, profile |-> out.ft.profile,
                    version |-> HeaderVersion(out.ft.profile, e), b |-> b, e |-> e, pcm |-> out.pcm]

EncoderSound ==
  stage = Done =>
    LET cols == MatchingColumns(CV(out.level, out.pcm, out.vp, out.ft)) IN
    /\ \A b \in Bases :
         LET hs == HeadersForBase(cols, out.vp, b) IN
         /\ \A t \in 1..Len(hs) : /\ WellFormed(hs[t])
                                  /\ DecodeHeader(b, hs[t]) = out.vp
                                  /\ (LevelAccepts(HeaderRec(b, hs[t])) \/ DeviationLevelVersion(HeaderRec(b, hs[t])))
         \* serialised one after the other in generation order (each header owning its parse parameters),
         \* every header still carries its own minimal version - the one HeaderRec was judged with
         /\ SerialiseInOrder(out.ft.profile, OwnCells(hs)) = MinimalVersions(out.ft.profile, hs)
         \* the encoder's choice of base formats covers every format that can work
         /\ Len(hs) > 0 => b \in AllowedBases(cols, out.vp)
    \* not vacuous: the configuration has at least one header
    /\ \E b \in Bases : Len(HeadersForBase(cols, out.vp, b)) > 0

RegularOut == stage = Done => Regular(out.vp, out.pcm)

(* EXPECTED TO FAIL (run separately): no configuration whose alternative headers need DIFFERENT versions, *)
(* i.e. for which sharing one parse-parameters object between the yielded headers (the named deviation     *)
(* SeqHeaderOps!DeviationAliasedParseParameters) would label a later header with the first one's version.   *)
(* Its violation shows that the enumerated space can tell aliased from owned parse parameters (UHD / HDR     *)
(* colour: compact header version 1 or 2, explicit colour spec 5..7 or primaries / matrix 4 version 3).     *)
NoAliasingHazard ==
  stage = Done =>
    LET cols == MatchingColumns(CV(out.level, out.pcm, out.vp, out.ft)) IN
    \A b \in Bases : LET hs == HeadersForBase(cols, out.vp, b) IN
                     SerialiseInOrder(out.ft.profile, SharedCell(hs)) = MinimalVersions(out.ft.profile, hs)

(* EXPECTED TO FAIL on the real level table (run separately, counterexample stored as evidence of the   *)
(* known finding): no configuration hits the level/version deviation                                    *)
NoLevelVersionDeviation ==
  stage = Done =>
    LET cols == MatchingColumns(CV(out.level, out.pcm, out.vp, out.ft)) IN
    \A b \in Bases : LET hs == HeadersForBase(cols, out.vp, b) IN
                     \A t \in 1..Len(hs) : ~DeviationLevelVersion(HeaderRec(b, hs[t]))
=============================================================================
