-------------------------------- MODULE SerDes --------------------------------
(* The serialiser/deserialiser framework of vc2_conformance/bitstream/serdes.py (property C21). *)
(*                                                                                               *)
(* A *program* is a sequence of SerDes method calls (primitive fields, declare_list,             *)
(* subcontext_enter/leave, set_context_type, computed_value, bounded_block_begin/end,            *)
(* byte_align, verify_complete).  TLC explores every program up to MaxLen calls; the values      *)
(* are chosen call by call, so the machine below is the *Serialiser* walking a description that  *)
(* is built lazily (`cur`, `stack`: the current context with its used-target index map and the   *)
(* enclosing ones, exactly the code's cur_context/_cur_context_indices/_context_stack/           *)
(* _context_indices_stack/_target_stack) while a BitstreamWriter model (BitIOOps) produces the   *)
(* bits, and a *Deserialiser* reads those bits back in lockstep with a BitstreamReader model     *)
(* (`r`).  The final call verify_complete is combined with a *fault*: the description handed to  *)
(* the real Serialiser is perturbed at a site chosen by TLC among the recorded uses (extra key,  *)
(* missing key, list too long / too short, missing key covered by a default registered for the  *)
(* right / the wrong context type, a non-list value - truthy or falsy - provided for a target    *)
(* the program declares as a list), and with the *form* the complete description is given in:    *)
(* every dictionary already of its final type ("typed"), all plain dicts ("plain": each          *)
(* set_context_type then has to convert the entry and put it back into its slot of the parent)   *)
(* or the two fixeddict types exchanged ("swapped").                                             *)
(* The alphabet is a parameter (OpNames, PrimKinds, ... in the cfg): mc/SerDes.cfg is the        *)
(* general box, mc/SerDesLists.cfg a reduced alphabet (lists of typed subcontexts) with longer   *)
(* programs, mc/SerDesFaults.cfg every fault kind in nested and typed contexts.                  *)
(* Python has aliasing (the parent dictionary holds a reference to the child); here the child is *)
(* written into its parent when entered and again when left, and Assemble gives the root view.   *)
EXTENDS BitIOOps, TLC, FiniteSets

CONSTANTS MaxLen, MaxDepth,
          OpNames,        \* calls in the alphabet: subset of {"prim", "declare_list", "enter", "leave", "set_type",
                          \*                                   "computed", "bbegin", "bend", "align"}
          PrimKinds,      \* subset of {"bool", "nbits", "uint", "sint"}
          PrimTargets,    \* subset of {"a", "l"}
          ListTargets,    \* subset of {"l", "m"}
          EnterTargets,   \* subset of {"s", "m"}
          Types,          \* arguments of set_context_type: subset of {"dict", "TA", "TB"}
          FaultKinds,     \* subset of AllFaultKinds
          LastIsVerify,   \* TRUE: only verify_complete may be the MaxLen-th call (focused configurations: the
                          \* calls of the last level are already covered by the general one)
          Givens          \* subset of {"typed", "plain", "swapped"}

VARIABLES cur,     \* [typ, ts (set_context_type called here), m : target -> tagged value, idx : target -> -1 (used) | next list index]
          stack,   \* Seq of [ctx, target]
          w, r,    \* writer and reader models (BitIOOps)
          out,     \* outcome of the last call: [err, ...]
          uses,    \* Seq of [path, t, kind, islist, ix, typ, ts]: every target use, for fault sites
          pre, inp, hist, obs
vars == <<cur, stack, w, r, out, uses, pre, inp, hist, obs>>

(* ---- tagged values ---------------------------------------------------------------------------- *)
Leaf(kind, v) == [k |-> "v", kind |-> kind, v |-> v]
ListV(items)  == [k |-> "l", items |-> items]
CtxV(c)       == [k |-> "c", typ |-> c.typ, m |-> c.m]
EmptyCtx == [typ |-> "dict", ts |-> FALSE, m |-> <<>>, idx |-> <<>>]

Used == -1
Has(fn, t) == t \in DOMAIN fn
Put(fn, t, x) == (t :> x) @@ fn

(* _get_context_value / _set_context_value / _setdefault_context_value on the lazily built        *)
(* description: result [ok, c] - a target is used once, or sequentially if declared as a list     *)
UseTarget(c, t, x) ==
  IF ~Has(c.idx, t) THEN [ok |-> TRUE, c |-> [c EXCEPT !.m = Put(c.m, t, x), !.idx = Put(c.idx, t, Used)]]
  ELSE IF c.idx[t] = Used THEN [ok |-> FALSE, c |-> c]
  ELSE [ok |-> TRUE, c |-> [c EXCEPT !.m[t] = ListV(Append(c.m[t].items, x)), !.idx[t] = c.idx[t] + 1]]

PutChild(parent, t, child) ==
  IF parent.idx[t] = Used THEN [parent EXCEPT !.m[t] = child]
  ELSE [parent EXCEPT !.m[t] = ListV([parent.m[t].items EXCEPT ![parent.idx[t]] = child])]

RECURSIVE AssembleFrom(_, _, _)
AssembleFrom(c, st, k) == IF k = 0 THEN c
                          ELSE AssembleFrom(PutChild(st[k].ctx, st[k].target, CtxV(c)), st, k - 1)
Assemble(c, st) == CtxV(AssembleFrom(c, st, Len(st)))

PathOf(st) == [i \in 1..Len(st) |-> <<st[i].target, IF st[i].ctx.idx[st[i].target] = Used THEN -1 ELSE st[i].ctx.idx[st[i].target] - 1>>]

(* ---- alphabet ------------------------------------------------------------------------------------ *)
Op(op, t, kind, v) == [op |-> op, t |-> t, kind |-> kind, v |-> v]
(* "bytes" (one byte), "bits" (a 3-bit bit array, value 3 = 0,1,1) and "uint_lit" (one byte) are the fixed-width *)
(* primitives that no VC-2 syntax element places inside a bounded block -- a serdes program may.  The values   *)
(* end in 1s (175 = 1010 1111), so that a block ending inside the value can still be serialised (only 1s may    *)
(* fall past the end of a bounded block) and must read back as written.                                        *)
PrimVals == [bool |-> {1}, nbits |-> {2}, uint |-> {0, 3}, sint |-> {-1}, bytes |-> {175}, bits |-> {3}, uint_lit |-> {175}]
PrimOps == {Op("prim", t, kd, v) : t \in PrimTargets, kd \in PrimKinds, v \in {0, 1, 2, 3, -1, 175}}
AllOps ==   {o \in PrimOps : o.v \in PrimVals[o.kind]}
       \cup {Op("declare_list", t, "", 0) : t \in ListTargets}
       \cup {Op("enter", t, "", 0) : t \in EnterTargets}
       \cup {Op("leave", "", "", 0)}
       \cup {Op("set_type", "", ty, 0) : ty \in Types}
       \cup {Op("computed", "c", "", 7)}
       \cup {Op("bbegin", "", "", n) : n \in {1, 4}}
       \cup {Op("bend", "p", "", v) : v \in {0, 1}}          \* v = the bit the padding is made of
       \cup {Op("align", "q", "", v) : v \in {0, 1}}
Ops == {o \in AllOps : o.op \in OpNames}

NBITS == 2
PrimIO(o) == CASE o.kind = "bytes"    -> [op |-> "bytes", n |-> 1, v |-> 0, s |-> <<o.v>>]
               [] o.kind = "bits"     -> [op |-> "bitarray", n |-> 3, v |-> 0, s |-> <<0, 1, 1>>]
               [] o.kind = "uint_lit" -> [op |-> "uintlit", n |-> 1, v |-> o.v, s |-> <<>>]
               [] OTHER -> [op |-> IF o.kind = "bool" THEN "bit" ELSE o.kind, n |-> NBITS, v |-> o.v, s |-> <<>>]
PadIO(n, b) == [op |-> "bitarray", n |-> n, v |-> 0, s |-> [i \in 1..n |-> b]]

(* one serialiser call + the deserialiser's mirrored call: result [cur, stack, w, r, err, rv, uses] *)
Same(err) == [cur |-> cur, stack |-> stack, w |-> w, r |-> r, err |-> err, uses |-> uses, rt |-> TRUE]

IsList(t) == Has(cur.idx, t) /\ cur.idx[t] # Used
Ix(t) == IF IsList(t) THEN cur.idx[t] ELSE -1

(* write value (record for BitIOOps) for target t with the given leaf, then read it back *)
Field(t, leaf, io, kind) ==
  LET u == UseTarget(cur, t, leaf) IN
  IF ~u.ok THEN Same("ReusedTargetError")
  ELSE LET a == WOp(w, io)
           b == ROp(a.w.buf, r, io) IN
       [cur |-> u.c, stack |-> stack, w |-> a.w, r |-> b.r, err |-> a.err,
        uses |-> Append(uses, [path |-> PathOf(stack), t |-> t, kind |-> kind, islist |-> IsList(t), ix |-> Ix(t), typ |-> cur.typ, ts |-> cur.ts]),
        rt |-> a.err # "none" \/ (b.err = "none" /\ b.v = Written(io) /\ b.r.pos = a.w.pos /\ b.r.on = a.w.on /\ b.r.rem = a.w.rem)]

Do(o) ==
  CASE o.op = "prim" -> Field(o.t, Leaf(o.kind, o.v), PrimIO(o), "prim")
    [] o.op = "computed" ->
         LET u == UseTarget(cur, o.t, Leaf("computed", o.v)) IN
         IF ~u.ok THEN Same("ReusedTargetError")
         ELSE [Same("none") EXCEPT !.cur = u.c,
                 !.uses = Append(uses, [path |-> PathOf(stack), t |-> o.t, kind |-> "computed", islist |-> FALSE, ix |-> -1, typ |-> cur.typ, ts |-> cur.ts])]
    [] o.op = "declare_list" ->
         IF Has(cur.idx, o.t) THEN Same("ReusedTargetError")
         ELSE [Same("none") EXCEPT !.cur = [cur EXCEPT !.m = Put(cur.m, o.t, ListV(<<>>)), !.idx = Put(cur.idx, o.t, 0)],
                 !.uses = Append(uses, [path |-> PathOf(stack), t |-> o.t, kind |-> "list", islist |-> TRUE, ix |-> -1, typ |-> cur.typ, ts |-> cur.ts])]
    [] o.op = "enter" ->
         LET u == UseTarget(cur, o.t, CtxV(EmptyCtx)) IN
         IF ~u.ok THEN Same("ReusedTargetError")
         ELSE [Same("none") EXCEPT !.cur = EmptyCtx, !.stack = Append(stack, [ctx |-> u.c, target |-> o.t]),
                 !.uses = Append(uses, [path |-> PathOf(stack), t |-> o.t, kind |-> "sub", islist |-> IsList(o.t), ix |-> Ix(o.t), typ |-> cur.typ, ts |-> cur.ts])]
    [] o.op = "leave" ->
         LET top == stack[Len(stack)] IN
         [Same("none") EXCEPT !.cur = PutChild(top.ctx, top.target, CtxV(cur)), !.stack = SubSeq(stack, 1, Len(stack) - 1)]
    [] o.op = "set_type" -> [Same("none") EXCEPT !.cur = [cur EXCEPT !.typ = o.kind, !.ts = TRUE]]
    [] o.op = "bbegin" ->
         LET a == WOp(w, [op |-> "bbegin", n |-> o.v, v |-> 0, s |-> <<>>])
             b == ROp(w.buf, r, [op |-> "bbegin", n |-> o.v, v |-> 0, s |-> <<>>]) IN
         [Same(a.err) EXCEPT !.w = a.w, !.r = b.r]
    [] o.op = "bend" ->
         IF ~w.on THEN Same("Exception")
         ELSE LET n == Unused(w.on, w.rem)
                  w1 == [w EXCEPT !.on = FALSE, !.rem = 0]
                  r1 == [r EXCEPT !.on = FALSE, !.rem = 0]
                  u == UseTarget(cur, o.t, Leaf("bitarray", [i \in 1..n |-> o.v])) IN
              IF ~u.ok THEN [Same("ReusedTargetError") EXCEPT !.w = w1, !.r = r1]
              ELSE LET a == WOp(w1, PadIO(n, o.v))
                       b == ROp(a.w.buf, r1, PadIO(Unused(r.on, r.rem), o.v)) IN
                   [cur |-> u.c, stack |-> stack, w |-> a.w, r |-> b.r, err |-> a.err,
                    uses |-> Append(uses, [path |-> PathOf(stack), t |-> o.t, kind |-> "pad", islist |-> FALSE, ix |-> -1, typ |-> cur.typ, ts |-> cur.ts]),
                    rt |-> Unused(r.on, r.rem) = n /\ b.err = "none" /\ b.v = Written(PadIO(n, o.v)) /\ b.r.pos = a.w.pos]
    [] o.op = "align" ->
         LET n == (8 - (w.pos % 8)) % 8 IN Field(o.t, Leaf("bitarray", [i \in 1..n |-> o.v]), PadIO(n, o.v), "pad")

(* ---- verify_complete + fault ------------------------------------------------------------------ *)
VerifyOutcome == IF Len(stack) > 0 THEN "UnclosedNestedContextError"
                 ELSE IF w.on THEN "UnclosedBoundedBlockError" ELSE "none"

AllFaultKinds == {"none", "extra", "missing", "listlong", "listshort", "default", "defaultwrongtype", "nonlist"}
ASSUME FaultKinds \subseteq AllFaultKinds /\ Givens \subseteq {"typed", "plain", "swapped"}
(* fault "nonlist": the description provides this (abstract) value instead of a list for a target the      *)
(* program declares as a list; the first four are truthy in Python, the others falsy                       *)
NonListVals == {"int7", "str1", "tuple1", "dict1",
                "int0", "false", "none", "str0", "bytes0", "dict0", "tuple0", "float0", "bits0"}
(* sites a fault may be planted at: an index into `uses` (0 = the root context itself, for "extra") *)
Eligible(fk, i) ==
  CASE fk = "none"  -> i = 0
    [] fk = "extra" -> (IF i = 0 THEN TRUE ELSE uses[i].kind = "sub")                    \* an unused key in the root / in that subcontext
    [] fk \in {"missing", "default", "defaultwrongtype"} -> i > 0 /\ uses[i].kind \in {"prim", "pad"} /\ ~uses[i].islist
    [] fk \in {"listlong", "nonlist"} -> i > 0 /\ uses[i].kind = "list"
    [] fk = "listshort" -> i > 0 /\ uses[i].kind = "prim" /\ uses[i].islist
                           /\ \A j \in (i + 1)..Len(uses) : ~(uses[j].path = uses[i].path /\ uses[j].t = uses[i].t)   \* last item
(* the rule of C21 for the serialiser: *)
MustFail(fk) == fk \in {"extra", "missing", "listlong", "listshort", "defaultwrongtype", "nonlist"}
(* the exception the code is expected to raise (compared and counted as a spec disagreement only) *)
ExpErr(fk) == CASE fk \in {"extra", "listlong"} -> "UnusedTargetError"
                [] fk \in {"missing", "defaultwrongtype"} -> "KeyError"
                [] fk = "listshort" -> "ListTargetExhaustedError"
                [] fk = "nonlist" -> "ListTargetContainsNonListError"
                [] OTHER -> "none"

(* ---- the form the description is given in ---------------------------------------------------- *)
SwapT(ty) == CASE ty = "TA" -> "TB" [] ty = "TB" -> "TA" [] OTHER -> ty
GivenTyp(g, ty) == CASE g = "plain" -> "dict" [] g = "swapped" -> SwapT(ty) [] OTHER -> ty
RECURSIVE GivenTree(_, _)
GivenTree(tv, g) ==
  CASE tv.k = "c" -> [k |-> "c", typ |-> GivenTyp(g, tv.typ), m |-> [t \in DOMAIN tv.m |-> GivenTree(tv.m[t], g)]]
    [] tv.k = "l" -> [k |-> "l", items |-> [j \in 1..Len(tv.items) |-> GivenTree(tv.items[j], g)]]
    [] OTHER -> tv
(* the dictionary types of the description (leaf values dropped): part of the abstract state, so that the *)
(* transitions "verify a description given in another form" exist for every arrangement of typed entries  *)
RECURSIVE Skel(_)
Skel(tv) ==
  CASE tv.k = "c" -> [k |-> tv.typ, ch |-> [t \in {x \in DOMAIN tv.m : tv.m[x].k # "v"} |-> Skel(tv.m[t])]]
    [] tv.k = "l" -> [k |-> "l", ch |-> [j \in {x \in 1..Len(tv.items) : tv.items[x].k # "v"} |-> Skel(tv.items[j])]]
    [] OTHER -> [k |-> "v", ch |-> <<>>]

Init == /\ cur = EmptyCtx /\ stack = <<>> /\ w = W0 /\ r = R0
        /\ out = [err |-> "none", rt |-> TRUE] /\ uses = <<>>
        /\ pre = <<>> /\ inp = Op("init", "", "", 0) /\ hist = <<>>
        /\ obs = [tree |-> CtxV(EmptyCtx), bits |-> <<>>]

Abstract == [typ |-> cur.typ, idx |-> cur.idx,
             st |-> [i \in 1..Len(stack) |-> [typ |-> stack[i].ctx.typ, idx |-> stack[i].ctx.idx, t |-> stack[i].target]],
             ph |-> w.pos % 8, on |-> w.on, rem |-> w.rem, sk |-> Skel(obs.tree)]

Live == Len(hist) < MaxLen /\ out.err = "none" /\ inp.op # "verify"

(* NB: the results are bound with \E x \in {...}, not LET: TLC re-evaluates a LET definition at every *)
(* use inside an action (no caching there), which made this model 5 times slower.                      *)
Call(o) ==
  /\ Live
  /\ LastIsVerify => Len(hist) < MaxLen - 1
  /\ o.op = "leave" => Len(stack) > 0
  /\ o.op = "enter" => Len(stack) < MaxDepth
  /\ \E d \in {Do(o)} :
     /\ cur' = d.cur /\ stack' = d.stack /\ w' = d.w /\ r' = d.r /\ uses' = d.uses
     /\ out' = [err |-> d.err, rt |-> d.rt]
     /\ hist' = Append(hist, [o |-> o, err |-> d.err, pos |-> d.w.pos, depth |-> Len(d.stack), typ |-> d.cur.typ])
     /\ obs' = [tree |-> Assemble(d.cur, d.stack), bits |-> d.w.buf]
  /\ pre' = Abstract /\ inp' = o

(* the description at a path of <<target, list index or -1>> pairs *)
RECURSIVE Walk(_, _, _)
Walk(tv, path, k) == IF k > Len(path) THEN tv
                     ELSE LET x == tv.m[path[k][1]] IN
                          Walk(IF path[k][2] = -1 THEN x ELSE x.items[path[k][2] + 1], path, k + 1)

(* the context type a default value has to be registered for: type(cur_context) at the time of the use *)
TypAtUse(u, g) == IF u.ts THEN u.typ ELSE GivenTyp(g, Walk(obs.tree, u.path, 1).typ)

Verify(fk, i, g, nv) ==
  /\ \E v \in {VerifyOutcome} :
     \E site \in {IF i = 0 THEN [path |-> <<>>, t |-> "", kind |-> "root", islist |-> FALSE, ix |-> -1, typ |-> "dict", ts |-> FALSE]
                  ELSE IF fk = "extra" THEN [uses[i] EXCEPT !.path = Append(uses[i].path, <<uses[i].t, uses[i].ix>>)]
                  ELSE uses[i]} :
     \E dt \in {IF fk \in {"default", "defaultwrongtype"} THEN TypAtUse(uses[i], g) ELSE "dict"} :
     /\ out' = [err |-> v, rt |-> TRUE]
     /\ hist' = Append(hist, [o |-> [op |-> "verify", t |-> fk, kind |-> g, v |-> i], err |-> v, pos |-> w.pos,
                              depth |-> Len(stack), typ |-> cur.typ, fault |-> fk, site |-> site,
                              given |-> g, gtree |-> GivenTree(obs.tree, g), val |-> nv,
                              deftyp |-> dt, wrongtyp |-> CHOOSE ty \in {"dict", "TA", "TB"} : ty # dt,
                              experr |-> ExpErr(fk),
                              serfails |-> (v # "none" \/ MustFail(fk))])
  /\ pre' = Abstract /\ inp' = [op |-> "verify", t |-> fk, kind |-> g, v |-> i, nv |-> nv]
  /\ UNCHANGED <<cur, stack, w, r, uses, obs>>

Prim         == \E o \in {x \in Ops : x.op = "prim"} : Call(o)
DeclareList  == \E o \in {x \in Ops : x.op = "declare_list"} : Call(o)
Enter        == \E o \in {x \in Ops : x.op = "enter"} : Call(o)
Leave        == \E o \in {x \in Ops : x.op = "leave"} : Call(o)
SetType      == \E o \in {x \in Ops : x.op = "set_type"} : Call(o)
Computed     == \E o \in {x \in Ops : x.op = "computed"} : Call(o)
BoundedBegin == \E o \in {x \in Ops : x.op = "bbegin"} : Call(o)
BoundedEnd   == \E o \in {x \in Ops : x.op = "bend"} : Call(o)
ByteAlign    == \E o \in {x \in Ops : x.op = "align"} : Call(o)
(* guards first, cheapest outermost (TLC enumerates the quantifiers in this order) *)
VerifyComplete ==
  /\ Live /\ Len(hist) > 0
  /\ \E g \in {x \in Givens : x = "typed" \/ GivenTree(obs.tree, x) # obs.tree} :    \* another form only if it is another description
     \E fk \in (IF VerifyOutcome = "none" THEN FaultKinds ELSE FaultKinds \cap {"none"}) :  \* faults are planted into complete round-trip programs
     \E i \in {x \in 0..Len(uses) : Eligible(fk, x)} :
     \E nv \in (IF fk = "nonlist" THEN NonListVals ELSE {"-"}) : Verify(fk, i, g, nv)

Next == Prim \/ DeclareList \/ Enter \/ Leave \/ SetType \/ Computed \/ BoundedBegin \/ BoundedEnd \/ ByteAlign \/ VerifyComplete
Spec == Init /\ [][Next]_vars

View == <<pre, inp, Abstract, out>>

(* ---- C21 as properties of the design --------------------------------------------------------- *)
(* every value the serialiser writes is read back by the deserialiser's mirrored call, at the same *)
(* position and block state: with identical bookkeeping on both sides the descriptions are equal   *)
RoundTrip == out.rt
(* a target is never used twice: the index map marks every key of the current context *)
NoOverwrite == /\ DOMAIN cur.idx = DOMAIN cur.m
               /\ \A t \in DOMAIN cur.idx : cur.idx[t] # Used => (cur.m[t].k = "l" /\ Len(cur.m[t].items) = cur.idx[t])
(* the root view always contains the current context, with its current type, at the cursor path *)
TreeConsistent == LET at == Walk(obs.tree, PathOf(stack), 1) IN
                  inp.op \notin {"init", "verify"} => (at.k = "c" /\ at.typ = cur.typ /\ at.m = cur.m)
ReaderInStep == out.err = "none" => (r.pos = w.pos /\ r.on = w.on)
=============================================================================
