--------------------------- MODULE TestCaseGenData ---------------------------
(* Placeholder instance of the data of TestCaseGen (two decoder-like workers and one        *)
(* encoder-like worker on a shared tree).  harness/drivers/c24.py overwrites this module in  *)
(* TLC's working directory with the operation lists extracted by strace from the REAL worker *)
(* commands of `vc2-test-case-generator --parallel`.                                        *)
EXTENDS Sequences
O(k, p, x) == [k |-> k, p |-> p, q |-> <<>>, x |-> x]
Dec == <<"out", "cfg", "decoder">>
Enc == <<"out", "cfg", "encoder">>
Prog == <<
  <<O("makedirs", Dec, 1), O("creat", Dec \o <<"a.vc2">>, 1), O("write", Dec \o <<"a.vc2">>, 0),
    O("closew", Dec \o <<"a.vc2">>, 0), O("makedirs", Dec \o <<"a_expected">>, 1), O("openr", Dec \o <<"a.vc2">>, 0),
    O("put", Dec \o <<"a_expected", "picture_0.raw">>, 0), O("exit", <<>>, 1)>>,
  <<O("makedirs", Dec, 1), O("put", Dec \o <<"b.vc2">>, 0), O("makedirs", Dec \o <<"b_expected">>, 1),
    O("openr", Dec \o <<"b.vc2">>, 0), O("put", Dec \o <<"b_expected", "picture_0.raw">>, 0), O("exit", <<>>, 1)>>,
  <<O("makedirs", Enc \o <<"c">>, 1), O("put", Enc \o <<"c", "picture_0.raw">>, 0), O("put", Enc \o <<"c_metadata.json">>, 0),
    O("exit", <<>>, 1)>>
>>
GroupSeq == << <<1, 2>>, <<1, 3>>, <<2, 3>>, <<1, 2, 3>> >>
=============================================================================
