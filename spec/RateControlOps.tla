--------------------------- MODULE RateControlOps ---------------------------
(* Pure operators of the lossy rate control (property C14), shared by RateControl.tla (the    *)
(* search as a state machine, model-checked on small instances) and RateControlTrace.tla       *)
(* (evaluated by TLC on per-slice data recorded from the real encoder).                        *)
(*                                                                                             *)
(* Transcribed from the standard / the documented encoder design:                              *)
(*   (A.4.3/A.4.4) signed exp-Golomb code lengths, (13.3.1 note) forward quantisation,          *)
(*   (13.3.2) quant_factor, (13.5.3.2) slice_bytes, (13.5.3.1)/(13.5.4) slice layouts.          *)
EXTENDS Integers, Sequences

Abs(x) == IF x < 0 THEN -x ELSE x
MaxI(a, b) == IF a >= b THEN a ELSE b
CeilDivI(a, b) == (a + b - 1) \div b
RECURSIVE FloorLog2(_)
FloorLog2(m) == IF m < 2 THEN 0 ELSE 1 + FloorLog2(m \div 2)
\* vc2 intlog2(n) = ceil(log2(n)), n >= 1
IntLog2C(n) == IF n <= 1 THEN 0 ELSE FloorLog2(n - 1) + 1

(* ---- exp-Golomb lengths ---- *)
UnsignedLen(n) == 2 * FloorLog2(n + 1) + 1
SignedLen(v) == UnsignedLen(Abs(v)) + (IF v = 0 THEN 0 ELSE 1)
\* bits needed by a block of coefficients: trailing zeros are not coded (they read back as zeros
\* past the end of the bounded block)
RECURSIVE SumLen(_, _)
SumLen(s, k) == IF k = 0 THEN 0 ELSE SignedLen(s[k]) + SumLen(s, k - 1)
RECURSIVE LastNonZero(_, _)
LastNonZero(s, k) == IF k = 0 THEN 0 ELSE IF s[k] # 0 THEN k ELSE LastNonZero(s, k - 1)
CoeffBits(s) == SumLen(s, LastNonZero(s, Len(s)))

(* ---- quantisation ---- *)
\* floor((a * 2^k + c) / m) without leaving 32-bit integers: quotient/remainder of a*2^k by doubling
RECURSIVE MulPow2DivMod(_, _, _)
MulPow2DivMod(a, k, m) ==
  IF k = 0 THEN [q |-> a \div m, r |-> a % m]
  ELSE LET h == MulPow2DivMod(a, k - 1, m) IN [q |-> 2 * h.q + (2 * h.r) \div m, r |-> (2 * h.r) % m]
ScaledDiv(a, k, c, m) == LET h == MulPow2DivMod(a, k, m) IN h.q + (h.r + c) \div m
QuantFactorRaw(index) ==
  LET k == index \div 4 IN
  CASE index % 4 = 0 -> 4 * 2^k
    [] index % 4 = 1 -> ScaledDiv(503829, k, 52958, 105917)
    [] index % 4 = 2 -> ScaledDiv(665857, k, 58854, 117708)
    [] index % 4 = 3 -> ScaledDiv(440253, k, 32722, 65444)
MaxIndex == 111          \* factors stay below 2^31 up to here; the driver leaves larger indices out of scope
QFTable == [i \in 0..MaxIndex |-> QuantFactorRaw(i)]
QuantFactor(i) == QFTable[i]
ForwardQuant(x, idx) == LET mag == (4 * Abs(x)) \div QuantFactor(idx) IN IF x >= 0 THEN mag ELSE -mag
\* a component's coefficients cs with their matrix values ms, quantised at slice index q
Quantise(cs, ms, q) == [i \in 1..Len(cs) |-> ForwardQuant(cs[i], MaxI(0, q - ms[i]))]

(* ---- fitting ---- *)
AlignUp(b, a) == CeilDivI(b, a) * a
\* sets: sequence of [cs, ms]; each quantised block is padded to a multiple of `align` bits
RECURSIVE FitBits(_, _, _, _)
FitBits(sets, k, q, align) ==
  IF k = 0 THEN 0
  ELSE AlignUp(CoeffBits(Quantise(sets[k].cs, sets[k].ms, q)), align) + FitBits(sets, k - 1, q, align)
Fits(sets, q, align, target) == FitBits(sets, Len(sets), q, align) <= target
\* the property: q is the smallest index >= qmin at which the coefficients fit
Chosen(sets, q, align, target, qmin) ==
  /\ q >= qmin
  /\ Fits(sets, q, align, target)
  /\ \A p \in qmin..(q - 1) : ~Fits(sets, p, align, target)

(* ---- slice sizes ---- *)
\* (13.5.3.2) slice_bytes for slice number k (0-based) of n with numerator/denominator
SliceBytes(k, num, den) == ((k + 1) * num) \div den - (k * num) \div den
LDLengthBits(sb) == IntLog2C(8 * sb - 7)
LDBudget(sb) == 8 * sb - 7 - LDLengthBits(sb)
\* the encoder's documented choice of slice_size_scaler for lossy HQ pictures
SafeScaler(pb, n) == MaxI(1, CeilDivI(CeilDivI(pb, n) - 4, 255))
HQScaler(pb, n, minscaler) == MaxI(SafeScaler(pb, n), minscaler)
\* length units (of scaler bytes) given to slice k
HQSliceUnits(k, pb, n, scaler) == SliceBytes(k, pb - 4 * n, n * scaler)
RECURSIVE HQTotalUnits(_, _, _, _)
HQTotalUnits(k, pb, n, scaler) == IF k = 0 THEN 0 ELSE HQSliceUnits(k - 1, pb, n, scaler) + HQTotalUnits(k - 1, pb, n, scaler)
HQTotalBytes(pb, n, scaler) == 4 * n + scaler * HQTotalUnits(n, pb, n, scaler)
RECURSIVE Interleave(_, _)
Interleave(a, b) == IF a = <<>> \/ b = <<>> THEN <<>> ELSE <<Head(a), Head(b)>> \o Interleave(Tail(a), Tail(b))
=============================================================================
