--------------------------- MODULE ValidatorTrace ---------------------------
(* Validation of traces recorded from the real validator (vc2_conformance.decoder) running *)
(* on arbitrary byte strings: encoder output, test-case streams and their byte/field-level *)
(* mutants.  The harness wraps parse_sequence / parse_info / sequence_header /             *)
(* picture_header / fragment_parse in-process and logs one event per call AFTER it         *)
(* returned or raised; parse_info and fragment-header fields are read by the harness from  *)
(* the raw bytes (independently of the code under test).                                   *)
(*                                                                                         *)
(* The fold runs the stream-structure rules of Validator.tla on the concrete values and    *)
(* remembers the first violated rule of the run (`viol`).  A run that ENDS IN ACCEPT       *)
(* although a rule was violated is not a behaviour of the specification                    *)
(* (AcceptedStructurallyNonConformant); neither is a run ending in a crash.  A run that    *)
(* the validator rejects is always allowed here (the reason may be a value-level rule this *)
(* structural model does not know).  32-bit quantities travel as <<hi16, lo16>> pairs.     *)
EXTENDS ValidatorOps, Json, IOUtils, TLC, TLCExt

Log == ndJsonDeserialize(IOEnv.TRACE_FILE)

NONE == <<-1, -1>>
Zero == <<0, 0>>
Pair(n) == <<n \div 65536, n % 65536>>
Succ(p) == IF p[2] = 65535 THEN <<(p[1] + 1) % 65536, 0>> ELSE <<p[1], p[2] + 1>>
Odd(p) == p[2] % 2 = 1

PC_SH == 0  PC_EOS == 16  PC_AUX == 32  PC_PAD == 48
PC_LDP == 200  PC_HQP == 232  PC_LDF == 204  PC_HQF == 236
ValidCodes == {PC_SH, PC_EOS, PC_AUX, PC_PAD, PC_LDP, PC_HQP, PC_LDF, PC_HQF}
SymOf(c) == CASE c = PC_SH -> "sh" [] c = PC_EOS -> "eos" [] c = PC_AUX -> "aux" [] c = PC_PAD -> "pad"
              [] c = PC_LDP -> "ldp" [] c = PC_HQP -> "hqp" [] c = PC_LDF -> "ldf" [] c = PC_HQF -> "hqf" [] OTHER -> "none"
\* level number -> data-unit ordering pattern class (ST 2042-2 / level_sequence_restrictions)
PatOf(level) == IF level = 0 THEN "any" ELSE IF level \in 1..7 THEN "nomix"
                ELSE IF level \in {64, 65} THEN "altld" ELSE IF level = 66 THEN "althq" ELSE "any"
ProfOfCode(c) == IF c \in {PC_LDP, PC_LDF} THEN 0 ELSE IF c \in {PC_HQP, PC_HQF} THEN 3 ELSE -1

VARIABLES l, s, bad
tvars == <<l, s, bad>>

SeqInit == [nunits |-> 0, started |-> FALSE, ended |-> FALSE, ver |-> 0, prof |-> -1, pat |-> "any", fields |-> FALSE,
            lastPN |-> NONE, np |-> 0, fragRem |-> 0, fragRecv |-> 0, sx |-> 1, lvl |-> 0,
            lastOff |-> -1, lastNpo |-> Zero, viol |-> "", code |-> -1]

First(v, new) == IF v # "" THEN v ELSE new

(* ---- parse_info ------------------------------------------------------------------------ *)
PiViol(st, e) ==
  LET dist == Pair(e.off - st.lastOff) IN
  IF ~e.have THEN ""                                    \* fewer than 13 bytes left: the code must stop here
  ELSE IF st.ended THEN "R1_nothing_after_end_of_sequence"
  ELSE IF st.nunits > 0 /\ st.lastNpo # Zero /\ st.lastNpo # dist THEN "R2_previous_units_next_offset"
  ELSE IF ~e.pfx_ok THEN "R0_parse_info_prefix"
  ELSE IF e.code \notin ValidCodes THEN "R0_parse_code"
  ELSE IF st.nunits = 0 /\ e.code # PC_SH THEN "R1_first_is_header"
  ELSE IF st.started /\ LvlStep(st.pat, st.lvl, SymOf(e.code)) = DEAD THEN "R8_level_pattern"
  ELSE IF st.started /\ ProfOfCode(e.code) # -1 /\ ProfOfCode(e.code) # st.prof THEN "R5_profile_parse_code"
  ELSE IF st.started /\ e.code \in {PC_LDF, PC_HQF} /\ st.ver < 3 THEN "R5_version_parse_code"
  ELSE IF e.code = PC_EOS /\ e.npo # Zero THEN "R2_eos_next_offset_zero"
  ELSE IF e.code \in {PC_SH, PC_AUX, PC_PAD} /\ e.npo = Zero THEN "R2_next_offset_required"
  ELSE IF e.npo[1] = 0 /\ e.npo[2] \in 1..12 THEN "R2_next_offset_inside_parse_info"
  ELSE IF st.nunits = 0 /\ e.ppo # Zero THEN "R3_previous_offset"
  ELSE IF st.nunits > 0 /\ e.ppo # dist THEN "R3_previous_offset"
  ELSE IF e.code = PC_EOS /\ st.fragRem # 0 THEN "R7_incomplete_at_end"
  ELSE IF e.code = PC_EOS /\ st.fields /\ st.np % 2 = 1 THEN "R6_whole_frames"
  ELSE IF e.code = PC_EOS /\ st.started /\ ~LvlAccepting(st.pat, LvlStep(st.pat, st.lvl, "eos")) THEN "R8_level_pattern"
  ELSE ""

OnPi(st, e) ==
  LET v == PiViol(st, e) IN
  IF st.viol # "" \/ ~e.have THEN st
  ELSE [st EXCEPT !.viol = v,
                  !.nunits = @ + 1,
                  !.lastOff = e.off, !.lastNpo = e.npo, !.code = e.code,
                  !.ended = (e.code = PC_EOS),
                  !.lvl = IF st.started /\ v = "" THEN LvlStep(st.pat, st.lvl, SymOf(e.code)) ELSE @]

(* ---- sequence_header (successful) --------------------------------------------------------- *)
OnSh(st, e) ==
  IF st.viol # "" \/ e.exc # "" THEN st
  ELSE IF ~st.started
       THEN [st EXCEPT !.started = TRUE, !.ver = e.ver, !.prof = e.prof, !.pat = PatOf(e.level), !.fields = e.fields,
                       !.lvl = LvlStep(PatOf(e.level), 0, "sh"),
                       !.viol = IF e.prof = 3 /\ e.ver < 2 THEN "R5_profile_needs_version" ELSE ""]
       ELSE [st EXCEPT !.viol = IF ~e.same THEN "R4_header_identical" ELSE ""]

(* ---- picture_header ---------------------------------------------------------------------- *)
NumberViol(st, pn) ==
  IF st.lastPN # NONE /\ pn # Succ(st.lastPN) THEN "R6_consecutive"
  ELSE IF st.fields /\ st.np % 2 = 0 /\ Odd(pn) THEN "R6_even_first_field"
  ELSE ""

OnPic(st, e) ==
  IF st.viol # "" THEN st
  ELSE LET v == IF st.fragRem # 0 THEN "R7_picture_interleaved" ELSE NumberViol(st, e.pn) IN
       [st EXCEPT !.viol = v, !.lastPN = e.pn, !.np = @ + 1]

(* ---- fragment_parse ---------------------------------------------------------------------- *)
OnFrag(st, e) ==
  IF st.viol # "" THEN st
  ELSE IF e.cnt = 0
  THEN LET v == IF st.fragRem # 0 THEN "R7_fragmented_picture_restarted" ELSE NumberViol(st, e.pn) IN
       [st EXCEPT !.viol = v, !.lastPN = e.pn, !.np = @ + 1,
                  !.fragRem = IF e.exc = "" THEN e.sx * e.sy ELSE @, !.fragRecv = 0, !.sx = IF e.sx > 0 THEN e.sx ELSE 1]
  ELSE LET v == IF st.fragRem = 0 THEN "R7_no_fragmented_picture_in_progress"
                ELSE IF e.pn # st.lastPN THEN "R7_number_changed"
                ELSE IF e.cnt > st.fragRem THEN "R7_too_many_slices"
                ELSE IF e.x # st.fragRecv % st.sx \/ e.y # st.fragRecv \div st.sx THEN "R7_contiguous"
                ELSE "" IN
       [st EXCEPT !.viol = v, !.fragRem = Max(0, @ - e.cnt), !.fragRecv = @ + e.cnt]

Step(st, e) ==
  CASE e.ev = "seq"  -> [SeqInit EXCEPT !.viol = st.viol]      \* reset_state: nothing but I/O survives a sequence
    [] e.ev = "pi"   -> OnPi(st, e)
    [] e.ev = "sh"   -> OnSh(st, e)
    [] e.ev = "pic"  -> OnPic(st, e)
    [] e.ev = "frag" -> OnFrag(st, e)
    [] OTHER -> st

EndClause(st, e) ==
  IF e.outcome = "crash" THEN "VerdictIsAcceptOrConformanceError"
  ELSE IF e.outcome = "accept" /\ st.viol # "" THEN "AcceptedStructurallyNonConformant"
  ELSE IF e.outcome = "accept" /\ ~(st.nunits = 0 \/ st.ended) THEN "AcceptedUnterminatedSequence"
  ELSE "ok"

TraceInit == l = 1 /\ s = SeqInit /\ bad = <<>>
TraceNext ==
  /\ l <= Len(Log)
  /\ l' = l + 1
  /\ LET e == Log[l] IN
     IF e.ev = "begin" THEN s' = SeqInit /\ UNCHANGED bad
     ELSE IF e.ev = "end"
     THEN /\ s' = SeqInit
          /\ LET c == EndClause(s, e) IN
             bad' = IF c # "ok" THEN Append(bad, [tid |-> e.tid, line |-> l, clause |-> c, rule |-> s.viol, alarm |-> TRUE])
                    \* statistics only: which structural rule (if any) explains a rejection
                    ELSE IF e.outcome = "reject" THEN Append(bad, [tid |-> e.tid, line |-> l, clause |-> "rejected", rule |-> s.viol, alarm |-> FALSE])
                    ELSE bad
     ELSE s' = Step(s, e) /\ UNCHANGED bad
TraceSpec == TraceInit /\ [][TraceNext]_tvars
Report == l = Len(Log) + 1 => PrintT(<<"BAD", ToJson(bad)>>)
AllConsumed == TLCGet("stats").diameter - 1 = Len(Log)
=============================================================================
