------------------------------ MODULE DeserOps ------------------------------
(* The lenient bitstream parser (vc2_conformance/bitstream/vc2.py run by a Deserialiser) as  *)
(* an outcome machine over data units: what it must already know to read a unit, and how a   *)
(* parse ends.  Shared by Deser.tla (exhaustive) and DeserTrace.tla (validation of recorded  *)
(* round trips), property C06.                                                               *)
(*                                                                                           *)
(* st = [sh, ld, hq, out]                                                                    *)
(*   sh  : a sequence header was read in this sequence (major_version and picture dimensions *)
(*         are known)                                                                        *)
(*   ld/hq : transform parameters of a low-delay / high-quality picture or first fragment    *)
(*         were read in this sequence (slice geometry known for later fragments)             *)
(*   out : "boundary" (between sequences; the stream may end here), "open" (inside a         *)
(*         sequence), "raises" (a read needed state that is not there), "eof" (ran out of    *)
(*         bytes), "complete" (parsed to completion: premise of C06)                         *)
EXTENDS Integers, Sequences, FiniteSets, TLC

Start == [sh |-> FALSE, ld |-> FALSE, hq |-> FALSE, out |-> "boundary"]
Live(st) == st.out \in {"open", "boundary"}

(* u.k in {"SH","PIC","FRAG0","FRAGN","DATA","UNK","EOS"}; u.prof in {"ld","hq","none"} *)
NeedsMissing(st, u) ==
  \/ u.k \in {"PIC", "FRAG0"} /\ ~st.sh
  \/ u.k = "FRAGN" /\ u.prof = "ld" /\ ~st.ld
  \/ u.k = "FRAGN" /\ u.prof = "hq" /\ ~st.hq
  \/ u.k = "FRAGN" /\ u.prof = "none" /\ ~(st.ld \/ st.hq)
RunsOut(u) == u.k = "DATA" /\ u.npo = "beyond"

Step(st, u) ==
  LET s0 == IF st.out = "boundary" THEN [Start EXCEPT !.out = "open"] ELSE st IN   \* reset_state
  IF NeedsMissing(s0, u) THEN [s0 EXCEPT !.out = "raises"]
  ELSE IF RunsOut(u) THEN [s0 EXCEPT !.out = "eof"]
  ELSE CASE u.k = "SH"  -> [s0 EXCEPT !.sh = TRUE]
         [] u.k \in {"PIC", "FRAG0"} ->
              [s0 EXCEPT !.ld = s0.ld \/ u.prof = "ld", !.hq = s0.hq \/ u.prof = "hq"]
         [] u.k = "EOS" -> [s0 EXCEPT !.out = "boundary"]
         [] OTHER -> s0

(* how the byte string ends: "clean" at a unit boundary, "trail" = fewer than 13 further     *)
(* bytes, "cut" = last unit truncated                                                        *)
Finish(st, how) ==
  IF st.out = "boundary" /\ how = "clean" THEN [st EXCEPT !.out = "complete"]
  ELSE [st EXCEPT !.out = "eof"]

RECURSIVE Run(_, _)
Run(us, n) == IF n = 0 THEN Start
              ELSE LET p == Run(us, n - 1) IN IF Live(p) THEN Step(p, us[n]) ELSE p

(* declarative characterisation of the histories that parse to completion *)
SeqStart(us, i) == i = 1 \/ us[i - 1].k = "EOS"
InSeqBefore(us, i, P(_)) ==
  \E j \in 1..(i - 1) : P(us[j]) /\ \A m \in j..(i - 1) : us[m].k # "EOS"
IsSHu(u) == u.k = "SH"
IsLDtp(u) == u.k \in {"PIC", "FRAG0"} /\ u.prof = "ld"
IsHQtp(u) == u.k \in {"PIC", "FRAG0"} /\ u.prof = "hq"
IsTP(u)  == IsLDtp(u) \/ IsHQtp(u)
WellFormed(us) ==
  /\ Len(us) >= 1 => us[Len(us)].k = "EOS"
  /\ \A i \in 1..Len(us) :
       /\ ~RunsOut(us[i])
       /\ (us[i].k \in {"PIC", "FRAG0"} => InSeqBefore(us, i, IsSHu))
       /\ (us[i].k = "FRAGN" /\ us[i].prof = "ld" => InSeqBefore(us, i, IsLDtp))
       /\ (us[i].k = "FRAGN" /\ us[i].prof = "hq" => InSeqBefore(us, i, IsHQtp))
       /\ (us[i].k = "FRAGN" /\ us[i].prof = "none" => InSeqBefore(us, i, IsTP))

(* D5: the one place where the implementation is known to deviate from the design: a padding *)
(* / auxiliary unit whose next_parse_offset is below 13 parses (empty payload) but its       *)
(* description cannot be written back (negative length).                                     *)
DeviationNegativeLength(u) == u.k = "DATA" /\ u.npo \in {"zero", "short"}
=============================================================================
