------------------------------ MODULE DeserOps ------------------------------
(* The lenient bitstream parser (vc2_conformance/bitstream/vc2.py run by a Deserialiser) as  *)
(* an outcome machine over data units: what it must already know to read a unit, and how a   *)
(* parse ends.  Shared by Deser.tla (exhaustive) and DeserTrace.tla (validation of recorded  *)
(* round trips), property C06.                                                               *)
(*                                                                                           *)
(* st = [sh, ld, hq, out]                                                                    *)
(*   sh  : a sequence header was read in this sequence (major_version and picture dimensions *)
(*         are known)                                                                        *)
(*   ld/hq : transform parameters of a low-delay / high-quality picture or first fragment    *)
(*         were read in this sequence (slice geometry known for later fragments)             *)
(*   out : "boundary" (between sequences; the stream may end here), "open" (inside a         *)
(*         sequence), "raises" (a read needed state that is not there), "eof" (ran out of    *)
(*         bytes), "complete" (parsed to completion: premise of C06)                         *)
EXTENDS Integers, Sequences, FiniteSets, TLC, BigNat

Start == [sh |-> FALSE, ld |-> FALSE, hq |-> FALSE, out |-> "boundary"]
Live(st) == st.out \in {"open", "boundary"}

(* u.k in {"SH","PIC","FRAG0","FRAGN","DATA","UNK","EOS"}; u.prof in {"ld","hq","none"} *)
NeedsMissing(st, u) ==
  \/ u.k \in {"PIC", "FRAG0"} /\ ~st.sh
  \/ u.k = "FRAGN" /\ u.prof = "ld" /\ ~st.ld
  \/ u.k = "FRAGN" /\ u.prof = "hq" /\ ~st.hq
  \/ u.k = "FRAGN" /\ u.prof = "none" /\ ~(st.ld \/ st.hq)
RunsOut(u) == u.k = "DATA" /\ u.npo = "beyond"

Step(st, u) ==
  LET s0 == IF st.out = "boundary" THEN [Start EXCEPT !.out = "open"] ELSE st IN   \* reset_state
  IF NeedsMissing(s0, u) THEN [s0 EXCEPT !.out = "raises"]
  ELSE IF RunsOut(u) THEN [s0 EXCEPT !.out = "eof"]
  ELSE CASE u.k = "SH"  -> [s0 EXCEPT !.sh = TRUE]
         [] u.k \in {"PIC", "FRAG0"} ->
              [s0 EXCEPT !.ld = s0.ld \/ u.prof = "ld", !.hq = s0.hq \/ u.prof = "hq"]
         [] u.k = "EOS" -> [s0 EXCEPT !.out = "boundary"]
         [] OTHER -> s0

(* how the byte string ends: "clean" at a unit boundary, "trail" = fewer than 13 further     *)
(* bytes, "cut" = last unit truncated                                                        *)
Finish(st, how) ==
  IF st.out = "boundary" /\ how = "clean" THEN [st EXCEPT !.out = "complete"]
  ELSE [st EXCEPT !.out = "eof"]

RECURSIVE Run(_, _)
Run(us, n) == IF n = 0 THEN Start
              ELSE LET p == Run(us, n - 1) IN IF Live(p) THEN Step(p, us[n]) ELSE p

(* declarative characterisation of the histories that parse to completion *)
SeqStart(us, i) == i = 1 \/ us[i - 1].k = "EOS"
InSeqBefore(us, i, P(_)) ==
  \E j \in 1..(i - 1) : P(us[j]) /\ \A m \in j..(i - 1) : us[m].k # "EOS"
IsSHu(u) == u.k = "SH"
IsLDtp(u) == u.k \in {"PIC", "FRAG0"} /\ u.prof = "ld"
IsHQtp(u) == u.k \in {"PIC", "FRAG0"} /\ u.prof = "hq"
IsTP(u)  == IsLDtp(u) \/ IsHQtp(u)
WellFormed(us) ==
  /\ Len(us) >= 1 => us[Len(us)].k = "EOS"
  /\ \A i \in 1..Len(us) :
       /\ ~RunsOut(us[i])
       /\ (us[i].k \in {"PIC", "FRAG0"} => InSeqBefore(us, i, IsSHu))
       /\ (us[i].k = "FRAGN" /\ us[i].prof = "ld" => InSeqBefore(us, i, IsLDtp))
       /\ (us[i].k = "FRAGN" /\ us[i].prof = "hq" => InSeqBefore(us, i, IsHQtp))
       /\ (us[i].k = "FRAGN" /\ us[i].prof = "none" => InSeqBefore(us, i, IsTP))

(* ---- exp-Golomb codes of huge values ------------------------------------------------------ *)
(* (A.4.3) read_uint:  value = 1; while read_bit() = 0: value = 2 * value + read_bit(); return    *)
(* value - 1.  A code with k data bits b_1 .. b_k is the bit string  0 b_1 0 b_2 ... 0 b_k 1  and    *)
(* stands for (1 b_1 ... b_k)_2 - 1: any k is parseable, so values far beyond 32 / 48 / 53 / 64      *)
(* bits are part of the premise of C06 wherever a variable-length field or a coefficient is read.   *)
(* Classes: the number of data bits and their pattern.  Values are little-endian base-2^15 limbs    *)
(* (BigNat), as TLC integers are 32 bit.                                                            *)
(*   zeros : value + 1 = 2^k             ones  : value + 2 = 2^(k+1)  (every data bit set)          *)
(*   alt   : 1 0 1 0 ...                 ones0 : every data bit set but the last                    *)
BigK == {31, 47, 48, 53, 63, 64, 100}
BigPat == {"zeros", "ones", "alt", "ones0"}
BigClasses == [k : BigK, pat : BigPat]
DataBit(c, i) == CASE c.pat = "zeros" -> 0
                   [] c.pat = "ones"  -> 1
                   [] c.pat = "alt"   -> i % 2
                   [] OTHER           -> IF i = c.k THEN 0 ELSE 1
BigCode(c) == [j \in 1..(2 * c.k + 1) |->
                 IF j = 2 * c.k + 1 THEN 1 ELSE IF j % 2 = 1 THEN 0 ELSE DataBit(c, j \div 2)]
(* value + 1 = (1 b_1 ... b_k)_2, limb by limb: bit p (p = 0 is the least significant) is b_(k-p) *)
NBit(c, p) == IF p = c.k THEN 1 ELSE IF p > c.k THEN 0 ELSE DataBit(c, c.k - p)
LimbOf(c, j) == LET B(t) == NBit(c, 15 * (j - 1) + t) * (2 ^ t) IN
                B(0) + B(1) + B(2) + B(3) + B(4) + B(5) + B(6) + B(7) + B(8) + B(9) + B(10) + B(11) + B(12) + B(13) + B(14)
BigN(c) == [j \in 1..((c.k \div 15) + 1) |-> LimbOf(c, j)]
BigValue(c) == BSub(BigN(c), <<1>>)
(* the reader's loop (A.4.3) on such a bit string: n times "0, data bit", then the closing 1; the    *)
(* i-th data bit read becomes binary digit n - i of value + 1, below the leading 1 at position n     *)
ReadsAs(bits, n, c) ==
  /\ Len(bits) = 2 * n + 1 /\ bits[2 * n + 1] = 1 /\ \A i \in 1..n : bits[2 * i - 1] = 0
  /\ NBit(c, n) = 1 /\ \A i \in 1..n : bits[2 * i] = NBit(c, n - i)
  /\ \A p \in (n + 1)..(15 * Len(BigN(c)) - 1) : NBit(c, p) = 0
HasBig(u) == "big" \in DOMAIN u
(* what the reader must find in a description for the units of a history: the huge values, in order *)
BigValuesOf(us) == LET idx == {i \in 1..Len(us) : HasBig(us[i])} IN
                   {BigValue(us[i].big) : i \in idx}

(* D5: the one place where the implementation is known to deviate from the design: a padding *)
(* / auxiliary unit whose next_parse_offset is below 13 parses (empty payload) but its       *)
(* description cannot be written back (negative length).                                     *)
DeviationNegativeLength(u) == u.k = "DATA" /\ u.npo \in {"zero", "short"}
=============================================================================
