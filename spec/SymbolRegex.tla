----------------------------- MODULE SymbolRegex -----------------------------
(* The data-unit pattern matcher (vc2_conformance/symbol_re.py: Matcher), property C18.    *)
(*                                                                                         *)
(* One behaviour = one Matcher object: Init picks the pattern (Matcher(pattern)), Feed(x)  *)
(* is an accepted match_symbol(x), Refuse(x) a rejected one (returns False, nothing moves).*)
(* The design state is the Brzozowski derivative `d` of the pattern by the symbols consumed *)
(* so far; what the three query methods must answer is a function of `d` (variable `out`). *)
(* Next to the design the module runs the *code's* machine twice (SymbolRegexOps part 3):  *)
(*   sD  Thompson's construction with directed empty transitions -- TLC checks that it     *)
(*       answers exactly as the design (ThompsonCorrect): this is the repaired from_ast;   *)
(*   sU  DeviationBidirEpsilon: the same construction with the symmetric empty transitions *)
(*       that NFANode.add_transition(dest) creates -- what /repo did before the repair.    *)
(*       Its answers travel in `out` (fields dev..) and are used only to *attribute* a violating   *)
(*       case to that known defect: a case is attributed iff the deviation predicts the    *)
(*       implementation's observed answers on that very case.                              *)
EXTENDS SymbolRegexOps, TLC, Json, IOUtils

CONSTANTS Mode,      \* "enum": all ASTs with <= MaxOps operators over the leaves below
                     \* "file": the ASTs listed in the ndjson file named by env C18_PATTERNS
          MaxOps, MaxLen,
          PatSyms,   \* symbols that occur in enumerated patterns
          EnumAlphabet, \* symbols fed in "enum" mode (a superset of PatSyms: some symbol no pattern names)
          WithEps    \* TRUE: the empty group "()" is a leaf too

FileLog == ndJsonDeserialize(IOEnv.C18_PATTERNS)
RangeOf(s) == {s[i] : i \in 1..Len(s)}

Leaves == {Sym(a) : a \in PatSyms} \cup {Any, End} \cup (IF WithEps THEN {Eps} ELSE {})
Patterns == IF Mode = "file" THEN {FileLog[i].ast : i \in 1..Len(FileLog)}
            ELSE PatsUpTo(MaxOps, Leaves)
Alphabet == IF Mode = "file" THEN RangeOf(FileLog[1].alphabet) ELSE EnumAlphabet

VARIABLES pat,   \* the pattern of this Matcher
          w,     \* symbols accepted so far
          d,     \* design state: derivative of pat by w
          sD,    \* state set of the Thompson NFA (directed empty transitions)
          sU,    \* state set of DeviationBidirEpsilon
          out,   \* what the query methods must answer in this state (+ the deviation's answers)
          txt    \* concrete syntax of pat (initial state only)

vars == <<pat, w, d, sD, sU, out, txt>>

(* the code's automaton, built once per pattern *)
NFAof == TLCEval([p \in Patterns |-> Table(Build(p, 0))])

Out(p, dd, sd, su) ==
  LET T  == NFAof[p]
      cD == EquivT(T.clD, sd)
      cU == EquivT(T.clU, su) IN
  [complete    |-> CompleteD(dd),
   next        |-> NextSymsD(dd, Alphabet),
   thComplete  |-> MCompleteC(T, cD),
   thNext      |-> {x \in Alphabet : MAcceptC(T, cD, x)},
   thVns       |-> MVnsC(T, cD),
   devComplete |-> MCompleteC(T, cU),
   devNext     |-> {x \in Alphabet : MAcceptC(T, cU, x)},
   devVns      |-> MVnsC(T, cU)]

NoTxt == [min |-> <<>>, full |-> <<>>]

Init == /\ pat \in Patterns
        /\ w = <<>>
        /\ d = pat
        /\ sD = {NFAof[pat].s}
        /\ sU = {NFAof[pat].s}
        /\ out = Out(pat, pat, sD, sU)
        /\ txt = [min |-> Toks(pat, 0, "min"), full |-> Toks(pat, 0, "full")]

Feed(x) == /\ Len(w) < MaxLen
           /\ NonEmpty(Deriv(d, x))
           /\ LET T == NFAof[pat] IN
              /\ w' = Append(w, x)
              /\ d' = Deriv(d, x)
              /\ sD' = MNextC(T, T.clD, sD, x)
              /\ sU' = MNextC(T, T.clU, sU, x)
              /\ out' = Out(pat, d', sD', sU')
           /\ txt' = NoTxt
           /\ UNCHANGED pat

Refuse(x) == /\ ~NonEmpty(Deriv(d, x))      \* match_symbol returns False, the matcher does not move
             /\ UNCHANGED vars

Next == \E x \in Alphabet : Feed(x) \/ Refuse(x)

Spec == Init /\ [][Next]_vars

(* ---- theorems TLC checks on every reachable state ------------------------------------ *)
(* Thompson's construction with directed empty transitions answers as the design does.    *)
ThompsonCorrect ==
  /\ out.thComplete = out.complete
  /\ out.thNext = out.next
  /\ \A x \in Alphabet : Offered(out.thVns, x) = (x \in out.next)
  /\ (EndSym \in out.thVns) = out.complete

(* the consumed sequence is always a prefix of a match, and the design agrees with the    *)
(* declarative definitions evaluated from scratch on the whole sequence                   *)
DesignConsistent ==
  /\ Viable(pat, w)
  /\ out.complete = Complete(pat, w)
  /\ \A x \in Alphabet : (x \in out.next) = Viable(pat, Append(w, x))

(* symmetric empty transitions can only add behaviour *)
DeviationOverAccepts ==
  /\ out.next \subseteq out.devNext
  /\ out.complete => out.devComplete
  /\ sD \subseteq sU

WellFormed == EndOK(pat, TRUE) /\ Len(w) <= MaxLen
=============================================================================
