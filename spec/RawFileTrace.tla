---------------------------- MODULE RawFileTrace ----------------------------
(* Validation of events recorded from the real raw-file code and comparison tool (C23) on  *)
(* random formats, depths, samples and picture numbers.  "rt" events carry the picture     *)
(* written, the picture read back and the bytes of the file; "cmp" events carry two        *)
(* pictures (as digit sequences), which metadata agree, and what compare_pictures          *)
(* answered.  TLC evaluates equality of the sample arrays, the exit-code rule and the      *)
(* per-component difference counts (RawFileOps) and judges every line.                     *)
(* An "rt" event is one write of a picture OBJECT the caller holds (container kind "kind",  *)
(* write number "nth" of that object): wr is the picture the caller created the object     *)
(* from, wra what the object holds after the write, argsame whether picture number, video  *)
(* parameters and coding mode arguments are as before.  Write is a function of the values  *)
(* of its arguments and changes nothing but the file: wra = wr (WriteChangedPicture), and  *)
(* because wr is the value at creation, the second write of an object a writer damaged     *)
(* fails RoundTripSamples.  Events of one session were recorded in ONE process, formats one *)
(* after the other; each line is judged on its own, so no verdict may depend on history.   *)
EXTENDS RawFileOps, Json, IOUtils, TLC, TLCExt

Log == ndJsonDeserialize(IOEnv.TRACE_FILE)

VARIABLES l, bad
tvars == <<l, bad>>

CSet == {"Y", "C1", "C2"}

WellFormed(f, p) == \A c \in CSet : /\ Len(p[c]) = Count(f, c)
                                     /\ \A i \in 1..Len(p[c]) : InRangeDigits(p[c][i], Depth(f, c))

ClauseRt(e) ==
  IF e.exc # "none"                      THEN [c |-> "RoundTripRaised", alarm |-> TRUE]
  ELSE IF ~ValidFormat(e.fmt) \/ ~WellFormed(e.fmt, e.wr)
                                         THEN [c |-> "DriverInput", alarm |-> FALSE]
  ELSE IF \E c \in CSet : e.rd[c] # e.wr[c]
                                         THEN [c |-> "RoundTripSamples", alarm |-> TRUE]
  ELSE IF e.pnr # e.pnw                  THEN [c |-> "RoundTripNumber", alarm |-> TRUE]
  ELSE IF ~e.vpeq \/ ~e.modeeq           THEN [c |-> "RoundTripMetadata", alarm |-> TRUE]
  ELSE IF \E c \in CSet : e.wra[c] # e.wr[c]
                                         THEN [c |-> "WriteChangedPicture", alarm |-> TRUE]
  ELSE IF ~e.argsame                     THEN [c |-> "WriteChangedArguments", alarm |-> TRUE]
  ELSE IF Len(e.file) # FileSize(e.fmt)  THEN [c |-> "FileSize", alarm |-> FALSE]
  ELSE IF e.file # Flatten(e.wr["Y"]) \o Flatten(e.wr["C1"]) \o Flatten(e.wr["C2"])
                                         THEN [c |-> "Layout", alarm |-> FALSE]
  ELSE [c |-> "ok", alarm |-> FALSE]

ClauseCmp(e) ==
  LET comparable == e.sameparams /\ e.samemode
      cnt  == [c \in CSet |-> IF comparable THEN DiffCount(e.a[c], e.b[c]) ELSE 0]
      want == ExitCode(e.sameparams, e.samemode, e.pna = e.pnb, cnt)
  IN IF e.exc # "none"                   THEN [c |-> "CompareRaised", alarm |-> TRUE]
     ELSE IF comparable /\ \E c \in CSet : Len(e.a[c]) # Len(e.b[c])
                                         THEN [c |-> "DriverInput", alarm |-> FALSE]
     ELSE IF e.exit # want               THEN [c |-> "ExitCode", alarm |-> TRUE]
     ELSE IF want = 4 /\ \E c \in CSet : e.counts[c] # cnt[c]
                                         THEN [c |-> "DifferenceCounts", alarm |-> TRUE]
     ELSE IF want = 0 /\ ~e.saysidentical THEN [c |-> "Message", alarm |-> FALSE]
     ELSE [c |-> "ok", alarm |-> FALSE]

(* "dir" events: the tool run on two directories of numbered pictures (files listed in       *)
(* increasing number order); pairs[i] says how the driver made the i-th pair differ.        *)
ClauseDir(e) ==
  LET codes == [i \in 1..Len(e.pairs) |-> ExitCode(e.pairs[i].sameparams, e.pairs[i].samemode, e.pairs[i].samenumber, e.pairs[i].counts)]
  IN IF e.exc # "none"                   THEN [c |-> "DirCompareRaised", alarm |-> TRUE]
     ELSE IF (e.exit = 0) # DirAllIdentical(codes)
                                         THEN [c |-> "DirExitZeroIffAllIdentical", alarm |-> TRUE]
     ELSE IF e.exit # DirExit(codes)     THEN [c |-> "DirExitIsLastDifference", alarm |-> FALSE]
     ELSE IF e.ndifferent # DirNumDifferent(codes) \/ e.nsame # Len(codes) - DirNumDifferent(codes)
                                         THEN [c |-> "DirSummary", alarm |-> FALSE]
     ELSE [c |-> "ok", alarm |-> FALSE]

Clause(e) == CASE e.ev = "rt"  -> ClauseRt(e)
               [] e.ev = "cmp" -> ClauseCmp(e)
               [] e.ev = "dir" -> ClauseDir(e)
               [] OTHER -> [c |-> "UnknownEvent", alarm |-> TRUE]

TraceInit == l = 1 /\ bad = <<>>
TraceNext ==
  /\ l <= Len(Log)
  /\ l' = l + 1
  /\ LET e == Log[l]
         c == Clause(e)
     IN bad' = IF c.c = "ok" THEN bad
               ELSE Append(bad, [tid |-> e.tid, line |-> l, clause |-> c.c, alarm |-> c.alarm])
TraceSpec == TraceInit /\ [][TraceNext]_tvars

Report == l = Len(Log) + 1 => PrintT(<<"BAD", ToJson(bad)>>)
AllConsumed == TLCGet("stats").diameter - 1 = Len(Log)
=============================================================================
