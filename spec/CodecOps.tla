------------------------------ MODULE CodecOps ------------------------------
(* Pure operators over codec configurations (shared by CodecConfig.tla, the choice       *)
(* machine that enumerates configurations, and CodecTrace.tla, which judges recorded     *)
(* encode -> serialise -> validate -> decode runs).  Properties C03, C04, C09.           *)
(*                                                                                       *)
(* A configuration is a record with one field per dimension (see CodecConfig!DimOrder). *)
(* Everything a run is compared against is derived here from the configuration: the     *)
(* validity precondition of the encoder (Valid), the concrete picture_bytes value, the   *)
(* component dimensions (11.6.2) and depths (11.6.3), the expected data units, picture   *)
(* numbers (mod 2^32, as hi/lo 16-bit limbs because TLC integers are 32 bit) and the      *)
(* minimal major version (11.2.2).                                                       *)
EXTENDS Integers, Sequences, FiniteSets

Max(a, b) == IF a >= b THEN a ELSE b
Min(a, b) == IF a <= b THEN a ELSE b
CeilDiv(a, b) == (a + b - 1) \div b
\* vc2 intlog2: smallest k with 2^k >= n   (n >= 1)
IntLog2(n) == CHOOSE k \in 0..30 : 2^k >= n /\ (k = 0 \/ 2^(k - 1) < n)

(* ---------------------------------------------------------------- tables ------------ *)
Sizes == << [w |-> 8, h |-> 4], [w |-> 16, h |-> 8], [w |-> 12, h |-> 8], [w |-> 5, h |-> 3],
            [w |-> 6, h |-> 4], [w |-> 2, h |-> 2], [w |-> 16, h |-> 2], [w |-> 4, h |-> 8] >>

\* signal ranges: offsets and excursions (luma, colour difference)
Ranges == << [lo |-> 0,    le |-> 255,   co |-> 128,   ce |-> 255],     \* 8 bit full  (preset 1)
             [lo |-> 16,   le |-> 219,   co |-> 128,   ce |-> 224],     \* 8 bit video (preset 2)
             [lo |-> 64,   le |-> 876,   co |-> 512,   ce |-> 896],     \* 10 bit video (preset 3)
             [lo |-> 0,    le |-> 1023,  co |-> 512,   ce |-> 1023],    \* 10 bit full (preset 5, v3)
             [lo |-> 0,    le |-> 4095,  co |-> 2048,  ce |-> 4095],    \* 12 bit full (preset 6, v3)
             [lo |-> 0,    le |-> 65535, co |-> 32768, ce |-> 65535],   \* 16 bit full (preset 8, v3)
             [lo |-> 0,    le |-> 1,     co |-> 1,     ce |-> 1],       \* 1 bit (custom)
             [lo |-> 0,    le |-> 1023,  co |-> 128,   ce |-> 255],     \* mixed 10/8 (custom)
             [lo |-> 3,    le |-> 300,   co |-> 0,     ce |-> 5] >>     \* odd excursions: 9 and 3 bits

\* base video formats the video parameters start from (vc2_data_tables.BaseVideoFormats)
Bases == {0, 2, 8, 14, 19}

\* (wavelet_index, wavelet_index_ho, dwt_depth, dwt_depth_ho) for which a default quantisation
\* matrix exists (vc2_data_tables.QUANTISATION_MATRICES; the driver compares this set with the
\* installed table on every run)
DefaultQMDepths == {<<0, 0>>, <<0, 1>>, <<0, 2>>, <<0, 3>>, <<0, 4>>,
                    <<1, 0>>, <<1, 1>>, <<1, 2>>, <<1, 3>>, <<1, 4>>,
                    <<2, 0>>, <<2, 1>>, <<2, 2>>, <<2, 3>>,
                    <<3, 0>>, <<3, 1>>, <<3, 2>>, <<4, 0>>, <<4, 1>>}
DefaultQMWavelets == {<<i, i>> : i \in 0..6} \cup {<<3, 1>>}
DefaultQMKeys == {<<p[1], p[2], q[1], q[2]>> : p \in DefaultQMWavelets, q \in DefaultQMDepths}
HasDefaultQM(c) == <<c.wi, c.wiho, c.d, c.dho>> \in DefaultQMKeys

(* ---------------------------------------------------------------- derived values ---- *)
IsLossless(c) == c.mode = "hq_lossless"
IsLD(c) == c.mode = "ld_lossy"
IsHQ(c) == ~IsLD(c)
W(c) == Sizes[c.size].w
H(c) == Sizes[c.size].h
HSub(c) == IF c.cdf \in {1, 2} THEN 2 ELSE 1
VSub(c) == IF c.cdf = 2 THEN 2 ELSE 1
FieldDiv(c) == IF c.pcm = 1 THEN 2 ELSE 1
NumSlices(c) == c.sx * c.sy

\* (11.6.2) picture_dimensions
Dims(w, h, cdf, pcm) ==
  LET cw == IF cdf \in {1, 2} THEN w \div 2 ELSE w
      ch == IF cdf = 2 THEN h \div 2 ELSE h
      fd == IF pcm = 1 THEN 2 ELSE 1 IN
  [yw |-> w, yh |-> h \div fd, cw |-> cw, ch |-> ch \div fd]
CfgDims(c) == Dims(W(c), H(c), c.cdf, c.pcm)
\* (11.6.3) video_depth
DepthOf(excursion) == IntLog2(excursion + 1)
LumaDepth(c) == DepthOf(Ranges[c.range].le)
ChromaDepth(c) == DepthOf(Ranges[c.range].ce)

\* (13.2.3) padded component size and the per-slice upper bound on the number of coefficients
PadTo(x, m) == m * CeilDiv(x, m)
SubbandSum(pw, ph, c) ==
  LET lvl0w == pw \div 2^(c.d + c.dho)
      lvl0h == ph \div 2^(c.d)
      per(bw, bh) == CeilDiv(bw, c.sx) * CeilDiv(bh, c.sy)
      RECURSIVE HO(_), TwoD(_)
      HO(l) == IF l > c.dho THEN 0 ELSE per(lvl0w * 2^(l - 1), lvl0h) + HO(l + 1)
      TwoD(l) == IF l > c.d THEN 0
                 ELSE 3 * per(lvl0w * 2^(c.dho + l - 1), lvl0h * 2^(l - 1)) + TwoD(l + 1) IN
  per(lvl0w, lvl0h) + HO(1) + TwoD(1)
MaxSliceCoeffs(c) ==
  LET dm == CfgDims(c) IN
  [y |-> SubbandSum(PadTo(dm.yw, 2^(c.d + c.dho)), PadTo(dm.yh, 2^(c.d)), c),
   c |-> SubbandSum(PadTo(dm.cw, 2^(c.d + c.dho)), PadTo(dm.ch, 2^(c.d)), c)]
\* generous bound on the signed exp-Golomb length of an unquantised coefficient
WorstBits(c) == 2 * (Max(LumaDepth(c), ChromaDepth(c)) + 2 * (c.d + c.dho) + 4) + 2

(* picture_bytes for lossy modes: the class chosen by the configuration is made concrete here *)
PictureBytes(c) ==
  LET n == NumSlices(c)
      m == MaxSliceCoeffs(c)
      wb == WorstBits(c) IN
  IF IsLossless(c) THEN 0
  ELSE IF IsLD(c) THEN
    CASE c.pb = "min"    -> n
      [] c.pb = "minp1"  -> n + 1
      [] c.pb = "small"  -> 5 * n + 1
      [] c.pb = "q0"     -> n * (8 + CeilDiv((m.y + 2 * m.c) * wb, 8))
      [] c.pb = "scaler" -> 260 * n + 7
      [] c.pb = "edge255" -> 259 * n
      [] c.pb = "edge256" -> 260 * n
  ELSE
    CASE c.pb = "min"    -> 4 * n
      [] c.pb = "minp1"  -> 4 * n + 1
      [] c.pb = "small"  -> 9 * n + 2
      [] c.pb = "q0"     -> n * (4 + 64 + CeilDiv(m.y * wb, 8) + 2 * CeilDiv(m.c * wb, 8))
      [] c.pb = "scaler" -> 260 * n + 7
      [] c.pb = "edge255" -> 259 * n     \* largest budget whose length fields fit 8 bits with scaler 1
      [] c.pb = "edge256" -> 260 * n     \* smallest budget that needs scaler 2

(* ---------------------------------------------------------------- validity ---------- *)
(* The encoder's documented preconditions (encoder/pictures.py, sequence.py docstrings, the      *)
(* codec-features documentation) and the format rules of the standard the caller must respect.   *)
FormatOK(c) ==
  /\ W(c) % HSub(c) = 0
  /\ H(c) % (VSub(c) * FieldDiv(c)) = 0
  /\ H(c) \div (VSub(c) * FieldDiv(c)) >= 1
PictureNumbersOK(c) ==
  /\ (c.pcm = 1) => (c.npics % 2 = 0)                     \* (10.4.3) whole frames
  /\ (c.pcm = 1) => (c.pn \notin {"seven", "wrap1"})       \* (12.2) first field has an even number
RateOK(c) ==
  /\ IsLossless(c) => (c.minq = 0)                         \* make_picture_parse: lossless => qindex 0
QuantMatrixOK(c) == (c.qm = "default") => HasDefaultQM(c)
Valid(c) == FormatOK(c) /\ PictureNumbersOK(c) /\ RateOK(c) /\ QuantMatrixOK(c)

(* ---------------------------------------------------------------- picture numbers --- *)
\* numbers mod 2^32 as [hi, lo] with 16-bit limbs
PNStart(c) == CASE c.pn = "auto"  -> [hi |-> 0, lo |-> 0]
                [] c.pn = "zero"  -> [hi |-> 0, lo |-> 0]
                [] c.pn = "seven" -> [hi |-> 0, lo |-> 7]
                [] c.pn = "wrap2" -> [hi |-> 65535, lo |-> 65534]
                [] c.pn = "wrap1" -> [hi |-> 65535, lo |-> 65535]
PNSucc(p) == IF p.lo < 65535 THEN [hi |-> p.hi, lo |-> p.lo + 1]
             ELSE IF p.hi < 65535 THEN [hi |-> p.hi + 1, lo |-> 0]
             ELSE [hi |-> 0, lo |-> 0]
RECURSIVE PNAdd(_, _)
PNAdd(p, k) == IF k = 0 THEN p ELSE PNAdd(PNSucc(p), k - 1)
ExpectedNumbers(c) == [i \in 1..c.npics |-> PNAdd(PNStart(c), i - 1)]

(* ---------------------------------------------------------------- expected stream --- *)
\* data units of the encoded sequence (level = unconstrained, no extra patterns):
\* SH, then per picture PIC or FRAG(0) followed by the slice-carrying fragments, then EOS
RECURSIVE FragCounts(_, _)
FragCounts(left, per) == IF left = 0 THEN <<>>
                         ELSE <<Min(left, per)>> \o FragCounts(left - Min(left, per), per)
PictureUnits(c, i) ==
  IF c.fsc = 0 THEN << [k |-> "PIC", cnt |-> 0, pic |-> i] >>
  ELSE << [k |-> "FRAG", cnt |-> 0, pic |-> i] >>
       \o [j \in 1..Len(FragCounts(NumSlices(c), c.fsc)) |->
             [k |-> "FRAG", cnt |-> FragCounts(NumSlices(c), c.fsc)[j], pic |-> i]]
RECURSIVE AllPictureUnits(_, _)
AllPictureUnits(c, i) == IF i > c.npics THEN <<>> ELSE PictureUnits(c, i) \o AllPictureUnits(c, i + 1)
ExpectedUnits(c) == << [k |-> "SH", cnt |-> 0, pic |-> 0] >> \o AllPictureUnits(c, 1)
                    \o << [k |-> "EOS", cnt |-> 0, pic |-> 0] >>

\* (11.2.2) smallest major version; presets = indices read back from the sequence header (0 = none)
CodecVersion(c) ==
  Max(Max(1, IF IsHQ(c) THEN 2 ELSE 1),
      Max(IF c.fsc # 0 THEN 3 ELSE 1, IF c.wi # c.wiho \/ c.dho # 0 THEN 3 ELSE 1))
PresetVersion(p) ==
  IF p.fr > 11 \/ p.sr > 4 \/ p.cs > 4 \/ p.cp > 3 \/ p.cm > 3 \/ p.tf > 3 THEN 3 ELSE 1
NoPresets == [fr |-> 0, sr |-> 0, cs |-> 0, cp |-> 0, cm |-> 0, tf |-> 0]
MinVersion(c, p) == Max(CodecVersion(c), PresetVersion(p))

\* C04 applies to a picture iff lossless, or every slice of the picture was coded with qindex 0
ExactExpected(c, allq0) == IsLossless(c) \/ allq0
\* the spec's prediction that a budget is sufficient for qindex 0 (logged, never an alarm)
PredictAllQ0(c) == IsLossless(c) \/ (c.pb = "q0" /\ c.minq = 0)
=============================================================================
