--------------------------- MODULE ConstraintTrace ---------------------------
(* Validation of events recorded from the real constraint_table module (property C17) on   *)
(* random inputs far larger than the exhaustive boxes of ValueSets / ConstraintTable /     *)
(* ConstraintCsv.  Every event carries its inputs (item lists, table, assignment sequence, *)
(* abstract CSV rows) and what the real code answered; TLC evaluates the same operators    *)
(* as the exhaustive models on the inputs and judges every line (verdicts are total).      *)
EXTENDS ConstraintTableOps, Json, IOUtils, TLC, TLCExt

Log == ndJsonDeserialize(IOEnv.TRACE_FILE)

VARIABLES l, bad
tvars == <<l, bad>>

(* ---- decoding of recorded structures ---- *)
\* a recorded cell <<key, any, items>> ; a recorded column = sequence of such cells
CellOf(c) == IF c[2] THEN AnyDen ELSE DenOfItems(EmptyDen, c[3])
ColOf(cs) == [k \in {c[1] : c \in SeqRange(cs)} |-> CellOf(CHOOSE c \in SeqRange(cs) : c[1] = k)]
TabOf(t)  == [i \in 1..Len(t) |-> ColOf(t[i])]
\* the first n assignments <<k, v>> as a mapping (keys distinct is checked separately)
PrefixOf(sq, n) == [k \in {sq[i][1] : i \in 1..n} |-> sq[CHOOSE i \in 1..n : sq[i][1] = k /\ \A j \in (i+1)..n : sq[j][1] # k][2]]
Distinct(sq) == \A i, j \in 1..Len(sq) : i # j => sq[i][1] # sq[j][1]

\* recorded projection of a real table: per column a sequence of <<key, any, members among probes>>
ObsCol(cs)  == [k \in {c[1] : c \in SeqRange(cs)} |->
                  LET c == CHOOSE x \in SeqRange(cs) : x[1] = k IN [any |-> c[2], m |-> SeqRange(c[3])]]
ObsTab(t)   == [i \in 1..Len(t) |-> ObsCol(t[i])]
ProjTab(t, P) == [i \in 1..Len(t) |-> [k \in DOMAIN t[i] |-> [any |-> t[i][k].any, m |-> DenIn(t[i][k], P)]]]

\* abstract CSV rows <<kind, key, cells>> with cells = sequence of <<t, items>>
CsvCell(c) == [t |-> c[1], items |-> c[2]]
RECURSIVE ReadRows(_, _)
ReadRows(tab, rows) ==
  IF rows = <<>> THEN tab
  ELSE LET r == Head(rows) IN
       ReadRows(IF r[1] = "data" THEN ApplyRow(tab, r[2], [i \in 1..Len(r[3]) |-> CsvCell(r[3][i])]) ELSE tab,
                Tail(rows))

(* ---- clauses ---- *)
ClauseVs(e) ==
  LET dA == DenOfItems(EmptyDen, e.a)
      dB == IF e.bany THEN AnyDen ELSE DenOfItems(EmptyDen, e.b)
      dU == DenUnion(dA, dB)
      P  == SeqRange(e.probes)
  IN IF DenIn(dA, P) # SeqRange(e.ina)                THEN [c |-> "ContainsExactlyUnion(a)", alarm |-> TRUE]
     ELSE IF DenIn(dB, P) # SeqRange(e.inb)           THEN [c |-> "ContainsExactlyUnion(b)", alarm |-> TRUE]
     ELSE IF DenIn(dU, P) # SeqRange(e.inu)           THEN [c |-> "ContainsExactlyUnion(a+b)", alarm |-> TRUE]
     ELSE IF e.dab # DenDisjoint(dA, dB)              THEN [c |-> "Disjoint(a,b)", alarm |-> TRUE]
     ELSE IF e.dba # DenDisjoint(dA, dB)              THEN [c |-> "Disjoint(b,a)", alarm |-> TRUE]
     ELSE IF e.dua # DenDisjoint(dU, dA)              THEN [c |-> "Disjoint(a+b,a)", alarm |-> TRUE]
     ELSE IF ~(SeqRange(e.itera) = dA.s /\ Len(e.itera) = Cardinality(dA.s))
                                                      THEN [c |-> "IterValues", alarm |-> FALSE]
     ELSE [c |-> "ok", alarm |-> FALSE]

ClauseSeq(e) ==
  LET T  == TabOf(e.tab)
      n  == Len(e.acc)
      judged == NoCatchAll(T) /\ Distinct(e.seq)
      okc == \A i \in 1..Len(e.comb) : e.comb[i] = Allowed(T, PrefixOf(e.seq, i))
      oke == \A i \in 1..n : e.inav[i] = e.comb[i]
      oki == \A i \in 1..n : e.acc[i] = (\A j \in 1..i : Allowed(T, PrefixOf(e.seq, j)))
  IN IF judged /\ ~okc      THEN [c |-> "AllowedCombination", alarm |-> TRUE]
     ELSE IF judged /\ ~oke THEN [c |-> "Equivalence", alarm |-> TRUE]
     ELSE IF judged /\ ~oki THEN [c |-> "Incremental", alarm |-> TRUE]
     ELSE IF ~judged /\ ~okc THEN [c |-> "SpecState(catch-all/repeated key)", alarm |-> FALSE]
     ELSE [c |-> "ok", alarm |-> FALSE]

ClauseCsv(e) ==
  LET want == ProjTab(ReadRows(<<>>, e.rows), SeqRange(e.probes))
      got  == ObsTab(e.table)
  IN IF e.exc # "none"                 THEN [c |-> "CsvReadable", alarm |-> TRUE]
     ELSE IF got # want                THEN [c |-> "CsvCells", alarm |-> TRUE]
     ELSE [c |-> "ok", alarm |-> FALSE]

Clause(e) == CASE e.ev = "vs"  -> ClauseVs(e)
               [] e.ev = "seq" -> ClauseSeq(e)
               [] e.ev = "csv" -> ClauseCsv(e)
               [] OTHER -> [c |-> "UnknownEvent", alarm |-> TRUE]

TraceInit == l = 1 /\ bad = <<>>
TraceNext ==
  /\ l <= Len(Log)
  /\ l' = l + 1
  /\ LET e == Log[l]
         c == Clause(e)
     IN bad' = IF c.c = "ok" THEN bad
               ELSE Append(bad, [tid |-> e.tid, line |-> l, clause |-> c.c, alarm |-> c.alarm])
TraceSpec == TraceInit /\ [][TraceNext]_tvars

Report == l = Len(Log) + 1 => PrintT(<<"BAD", ToJson(bad)>>)
AllConsumed == TLCGet("stats").diameter - 1 = Len(Log)
=============================================================================
