--------------------------- MODULE ConstraintTrace ---------------------------
(* Validation of events recorded from the real constraint_table module (property C17) on   *)
(* random inputs far larger than the exhaustive boxes of ValueSets / ConstraintTable /     *)
(* ConstraintCsv.  Every event carries its inputs (item lists, table, assignment sequence, *)
(* abstract CSV rows) and what the real code answered; TLC evaluates the same operators    *)
(* as the exhaustive models on the inputs and judges every line (verdicts are total).      *)
EXTENDS ConstraintTableOps, Json, IOUtils, TLC, TLCExt

Log == ndJsonDeserialize(IOEnv.TRACE_FILE)

VARIABLES l, bad
tvars == <<l, bad>>

(* ---- decoding of recorded structures ---- *)
\* a recorded cell <<key, any, items>> ; a recorded column = sequence of such cells
CellOf(c) == IF c[2] THEN AnyDen ELSE DenOfItems(EmptyDen, c[3])
ColOf(cs) == [k \in {c[1] : c \in SeqRange(cs)} |-> CellOf(CHOOSE c \in SeqRange(cs) : c[1] = k)]
TabOf(t)  == [i \in 1..Len(t) |-> ColOf(t[i])]
\* the first n assignments <<k, v>> as a mapping (keys distinct is checked separately)
PrefixOf(sq, n) == [k \in {sq[i][1] : i \in 1..n} |-> sq[CHOOSE i \in 1..n : sq[i][1] = k /\ \A j \in (i+1)..n : sq[j][1] # k][2]]
Distinct(sq) == \A i, j \in 1..Len(sq) : i # j => sq[i][1] # sq[j][1]

\* recorded projection of a real table: per column a sequence of <<key, any, members among probes>>
ObsCol(cs)  == [k \in {c[1] : c \in SeqRange(cs)} |->
                  LET c == CHOOSE x \in SeqRange(cs) : x[1] = k IN [any |-> c[2], m |-> SeqRange(c[3])]]
ObsTab(t)   == [i \in 1..Len(t) |-> ObsCol(t[i])]
ProjTab(t, P) == [i \in 1..Len(t) |-> [k \in DOMAIN t[i] |-> [any |-> t[i][k].any, m |-> DenIn(t[i][k], P)]]]

\* abstract CSV rows <<kind, key, cells>> with cells = sequence of <<t, items>>
CsvCell(c) == [t |-> c[1], items |-> c[2]]
RECURSIVE ReadRows(_, _)
ReadRows(tab, rows) ==
  IF rows = <<>> THEN tab
  ELSE LET r == Head(rows) IN
       ReadRows(IF r[1] = "data" THEN ApplyRow(tab, r[2], [i \in 1..Len(r[3]) |-> CsvCell(r[3][i])]) ELSE tab,
                Tail(rows))

(* ---- clauses ---- *)
ClauseVs(e) ==
  LET dA == DenOfItems(EmptyDen, e.a)
      dB == IF e.bany THEN AnyDen ELSE DenOfItems(EmptyDen, e.b)
      dU == DenUnion(dA, dB)
      P  == SeqRange(e.probes)
  IN IF DenIn(dA, P) # SeqRange(e.ina)                THEN [c |-> "ContainsExactlyUnion(a)", alarm |-> TRUE]
     ELSE IF DenIn(dB, P) # SeqRange(e.inb)           THEN [c |-> "ContainsExactlyUnion(b)", alarm |-> TRUE]
     ELSE IF DenIn(dU, P) # SeqRange(e.inu)           THEN [c |-> "ContainsExactlyUnion(a+b)", alarm |-> TRUE]
     ELSE IF e.dab # DenDisjoint(dA, dB)              THEN [c |-> "Disjoint(a,b)", alarm |-> TRUE]
     ELSE IF e.dba # DenDisjoint(dA, dB)              THEN [c |-> "Disjoint(b,a)", alarm |-> TRUE]
     ELSE IF e.dua # DenDisjoint(dU, dA)              THEN [c |-> "Disjoint(a+b,a)", alarm |-> TRUE]
     ELSE IF ~(SeqRange(e.itera) = dA.s /\ Len(e.itera) = Cardinality(dA.s))
                                                      THEN [c |-> "IterValues", alarm |-> FALSE]
     ELSE [c |-> "ok", alarm |-> FALSE]

ClauseSeq(e) ==
  LET T  == TabOf(e.tab)
      n  == Len(e.acc)
      judged == NoCatchAll(T) /\ Distinct(e.seq)
      okc == \A i \in 1..Len(e.comb) : e.comb[i] = Allowed(T, PrefixOf(e.seq, i))
      oke == \A i \in 1..n : e.inav[i] = e.comb[i]
      oki == \A i \in 1..n : e.acc[i] = (\A j \in 1..i : Allowed(T, PrefixOf(e.seq, j)))
  IN IF judged /\ ~okc      THEN [c |-> "AllowedCombination", alarm |-> TRUE]
     ELSE IF judged /\ ~oke THEN [c |-> "Equivalence", alarm |-> TRUE]
     ELSE IF judged /\ ~oki THEN [c |-> "Incremental", alarm |-> TRUE]
     ELSE IF ~judged /\ ~okc THEN [c |-> "SpecState(catch-all/repeated key)", alarm |-> FALSE]
     ELSE [c |-> "ok", alarm |-> FALSE]

\* the caller adds values to cells of the table it read: touches = sequence of <<column, key, value>>
RECURSIVE Touched(_, _)
Touched(tab, ts) ==
  IF ts = <<>> THEN tab
  ELSE LET t == Head(ts) IN Touched([tab EXCEPT ![t[1]][t[2]] = DenAddValue(@, t[3])], Tail(ts))

ClauseCsv(e) ==
  LET read  == ReadRows(<<>>, e.rows)
      want  == ProjTab(read, SeqRange(e.probes))
      got   == ObsTab(e.table)
      want2 == ProjTab(Touched(read, e.touch), SeqRange(e.probes))
      got2  == ObsTab(e.table2)
  IN IF e.exc # "none"                 THEN [c |-> "CsvReadable", alarm |-> TRUE]
     ELSE IF got # want                THEN [c |-> "CsvCells", alarm |-> TRUE]
     ELSE IF got2 # want2              THEN [c |-> "CsvCellsAfterAdd", alarm |-> TRUE]
     ELSE [c |-> "ok", alarm |-> FALSE]

(* ---- objects with identity (ValueSets.tla, ConstraintTable.tla Touch) ----                              *)
(* e.nreg variables name value-set objects; e.tab is a table whose cells ARE some of these objects (a     *)
(* column = sequence of <<key, variable>>; the table holds references, so additions to a cell variable  *)
(* are additions to the cell).  Steps: <<"add_value", x, v, 0>>, <<"add_range", x, lo, hi>> (in place),     *)
(* <<"union", x, l, r>>, <<"any", x, 0, 0>>, <<"new", x, 0, 0>>, <<"avf", x, key, chosen>> (x is rebound to *)
(* what the library returned: a new object each time).  e.mem[i][x] = <<wildcard?, members among probes>> *)
(* of the object variable x names after step i, for ALL variables: value semantics say that a step        *)
(* changes the contents of the variable it is applied to and of no other.                                 *)
MapOf(pairs) == [k \in {p[1] : p \in SeqRange(pairs)} |-> (CHOOSE p \in SeqRange(pairs) : p[1] = k)[2]]
TabDen(tab, d) == [i \in 1..Len(tab) |->
                     [k \in {c[1] : c \in SeqRange(tab[i])} |-> d[(CHOOSE c \in SeqRange(tab[i]) : c[1] = k)[2]]]]
ObjStep(d, tab, st) ==
  LET x == st[2] IN
  CASE st[1] = "add_value" -> [d EXCEPT ![x] = DenAddValue(@, st[3])]
    [] st[1] = "add_range" -> [d EXCEPT ![x] = DenAddRange(@, st[3], st[4])]
    [] st[1] = "union"     -> [d EXCEPT ![x] = DenUnion(d[st[3]], d[st[4]])]
    [] st[1] = "any"       -> [d EXCEPT ![x] = AnyDen]
    [] st[1] = "new"       -> [d EXCEPT ![x] = EmptyDen]
    [] st[1] = "avf"       -> [d EXCEPT ![x] = AllowedValuesFor(TabDen(tab, d), st[3], MapOf(st[4]))]
\* "ok" or the operation after which some variable's recorded contents differ from its own listed contents
RECURSIVE ObjRun(_, _, _)
ObjRun(e, d, i) ==
  IF i > Len(e.steps) THEN "ok"
  ELSE LET d2 == ObjStep(d, e.tab, e.steps[i])
           P  == SeqRange(e.probes)
           ok == /\ Len(e.mem[i]) = e.nreg
                 /\ \A x \in 1..e.nreg : /\ e.mem[i][x][1] = d2[x].any
                                         /\ SeqRange(e.mem[i][x][2]) = DenIn(d2[x], P)
       IN IF ok THEN ObjRun(e, d2, i + 1) ELSE e.steps[i][1]
ClauseObj(e) ==
  LET r == IF Len(e.mem) # Len(e.steps) THEN "length" ELSE ObjRun(e, [x \in 1..e.nreg |-> EmptyDen], 1)
  IN IF r = "ok" THEN [c |-> "ok", alarm |-> FALSE]
     ELSE [c |-> "ContainsExactlyUnion(every object, after " \o r \o ")", alarm |-> TRUE]

Clause(e) == CASE e.ev = "vs"  -> ClauseVs(e)
               [] e.ev = "obj" -> ClauseObj(e)
               [] e.ev = "seq" -> ClauseSeq(e)
               [] e.ev = "csv" -> ClauseCsv(e)
               [] OTHER -> [c |-> "UnknownEvent", alarm |-> TRUE]

TraceInit == l = 1 /\ bad = <<>>
TraceNext ==
  /\ l <= Len(Log)
  /\ l' = l + 1
  /\ LET e == Log[l]
         c == Clause(e)
     IN bad' = IF c.c = "ok" THEN bad
               ELSE Append(bad, [tid |-> e.tid, line |-> l, clause |-> c.c, alarm |-> c.alarm])
TraceSpec == TraceInit /\ [][TraceNext]_tvars

Report == l = Len(Log) + 1 => PrintT(<<"BAD", ToJson(bad)>>)
AllConsumed == TLCGet("stats").diameter - 1 = Len(Log)
=============================================================================
