------------------------ MODULE DeserValidatorTrace ------------------------
(* C08: for every stream the validator accepts, the bitstream deserialiser reads the same    *)
(* sequence of data units with the same header and parameter values, and its slice           *)
(* coefficients (dequantised, DC-predicted) equal the transform data the validator decodes.  *)
(* One log line per stream, holding both consumers' observations:                            *)
(*   vunits / dunits : <<parse_code, next_parse_offset, previous_parse_offset, byte offset>> *)
(*   vpics / dpics   : per completed picture  hdr (<<name, value>> pairs), qm (quantisation  *)
(*                     matrix entries), y, c1, c2 (coefficients, subbands in level / orient  *)
(*                     order, row-major)                                                     *)
(*   dpics additionally: cqm (the custom_quant_matrix flag the deserialiser read for the     *)
(*                     picture); with cqm = FALSE the deserialised content holds NO matrix:  *)
(*                     (12.4.5.3) then prescribes the Annex D default for (wavelet_index,    *)
(*                     wavelet_index_ho, dwt_depth, dwt_depth_ho), taken here from           *)
(*                     DVT_DefaultQM (generated from the third-party vc2_data_tables, not    *)
(*                     from the tree under test); d.qm is the matrix the harness dequantised *)
(*                     the deserialised values with.                                         *)
(* Verdicts are total: the first differing clause and its index are reported.                *)
EXTENDS Integers, Sequences, FiniteSets, TLC, Json, IOUtils, TLCExt, DeserValidatorTables

ASSUME DVT_Generated

Log == ndJsonDeserialize(IOEnv.TRACE_FILE)
VARIABLES l, bad
tvars == <<l, bad>>

Min(a, b) == IF a < b THEN a ELSE b
FirstDiff(a, b) ==  \* 0 if equal; else the first index where they differ (or the shorter length + 1)
  IF a = b THEN 0
  ELSE LET n == Min(Len(a), Len(b)) IN
       IF \E i \in 1..n : a[i] # b[i] THEN CHOOSE i \in 1..n : a[i] # b[i] /\ \A j \in 1..(i - 1) : a[j] = b[j]
       ELSE n + 1

(* (13.4) DC prediction, redone here on the deserialiser's dequantised residuals: raster order, each   *)
(* value is predicted from its already reconstructed left / above / diagonal neighbours;              *)
(* mean(a, b, c) = floor((a + b + c + 1) / 3)  (\div floors, also for negative sums).                  *)
Mean3(a, b, c) == (a + b + c + 1) \div 3
RECURSIVE DCAcc(_, _, _)
DCAcc(flat, w, acc) ==
  IF Len(acc) = Len(flat) THEN acc
  ELSE LET k == Len(acc)  x == k % w  y == k \div w
           pred == IF x = 0 /\ y = 0 THEN 0
                   ELSE IF y = 0 THEN acc[k]
                   ELSE IF x = 0 THEN acc[k - w + 1]
                   ELSE Mean3(acc[k], acc[k - w + 1], acc[k - w]) IN
       DCAcc(flat, w, Append(acc, flat[k + 1] + pred))
\* component c (1..3) of the validator's picture v starts with its DC band (level 0), row-major
DCBandOK(vflat, dc) == dc.r = <<>> \/ dc.w = 0 \/ DCAcc(dc.r, dc.w, <<>>) = SubSeq(vflat, 1, Len(dc.r))
DCPredictionOK(v, d) ==
  Len(d.dcres) = 0 \/ (DCBandOK(v.y, d.dcres[1]) /\ DCBandOK(v.c1, d.dcres[2]) /\ DCBandOK(v.c2, d.dcres[3]))

(* value of the named entry of a recorded header (sequence of <<name, value>>); -1 if absent *)
HdrVal(hdr, name) ==
  IF \E i \in 1..Len(hdr) : hdr[i][1] = name
  THEN hdr[CHOOSE i \in 1..Len(hdr) : hdr[i][1] = name][2] ELSE -1
QMKey(hdr) == <<HdrVal(hdr, "wavelet_index"), HdrVal(hdr, "wavelet_index_ho"),
                HdrVal(hdr, "dwt_depth"), HdrVal(hdr, "dwt_depth_ho")>>
(* (12.4.5.3) the matrix in force for a picture of the DESERIALISED stream: the one it carries, *)
(* else the Annex D default for its own (deserialised) transform parameters; <<>> if none exists *)
MatrixInForce(d) ==
  IF d.cqm THEN d.qm
  ELSE IF QMKey(d.hdr) \in DOMAIN DVT_DefaultQM THEN DVT_DefaultQM[QMKey(d.hdr)] ELSE <<>>

PicClause(v, d) ==
  IF v.hdr # d.hdr THEN <<"HeaderValues", FirstDiff(v.hdr, d.hdr)>>
  ELSE IF v.qm # MatrixInForce(d) THEN <<"QuantMatrix", FirstDiff(v.qm, MatrixInForce(d))>>
  \* the harness must have dequantised the deserialised values with that very matrix
  ELSE IF d.qm # MatrixInForce(d) THEN <<"HarnessMatrix", FirstDiff(d.qm, MatrixInForce(d))>>
  ELSE IF v.y # d.y THEN <<"Coefficients", FirstDiff(v.y, d.y)>>
  ELSE IF v.c1 # d.c1 THEN <<"Coefficients", FirstDiff(v.c1, d.c1)>>
  ELSE IF v.c2 # d.c2 THEN <<"Coefficients", FirstDiff(v.c2, d.c2)>>
  ELSE IF ~DCPredictionOK(v, d) THEN <<"DCPrediction", 0>>
  ELSE <<"ok", 0>>

(* structural sanity of what the validator reported (spec-only, logged) *)
WellDelimited(us) == Len(us) >= 2 /\ us[1][1] = 0 /\ us[Len(us)][1] = 16
OffsetsChain(us) == \A i \in 1..(Len(us) - 1) :
                      us[i][1] = 16 \/ us[i][2] = 0 \/ us[i][2] = us[i + 1][4] - us[i][4]

Verdict(e) ==
  IF ~e.des_ok THEN [c |-> "Deserialises", alarm |-> TRUE, at |-> <<0, 0>>]
  \* the deserialised slices (coordinates, value counts) do not fit the deserialised geometry
  ELSE IF ~e.recon_ok THEN [c |-> "SlicePlacement", alarm |-> TRUE, at |-> <<0, 0>>]
  ELSE IF Len(e.vunits) # Len(e.dunits)
       THEN [c |-> "UnitCount", alarm |-> TRUE, at |-> <<Len(e.vunits), Len(e.dunits)>>]
  ELSE IF e.vunits # e.dunits
       THEN LET i == FirstDiff(e.vunits, e.dunits) IN
            [c |-> "UnitFields", alarm |-> TRUE, at |-> <<i, FirstDiff(e.vunits[i], e.dunits[i])>>]
  ELSE IF Len(e.vpics) # Len(e.dpics)
       THEN [c |-> "PictureCount", alarm |-> TRUE, at |-> <<Len(e.vpics), Len(e.dpics)>>]
  ELSE IF \E p \in 1..Len(e.vpics) : PicClause(e.vpics[p], e.dpics[p])[1] # "ok"
       THEN LET p == CHOOSE q \in 1..Len(e.vpics) :
                        /\ PicClause(e.vpics[q], e.dpics[q])[1] # "ok"
                        /\ \A r \in 1..(q - 1) : PicClause(e.vpics[r], e.dpics[r])[1] = "ok"
                x == PicClause(e.vpics[p], e.dpics[p]) IN
            [c |-> x[1], alarm |-> TRUE, at |-> <<p, x[2]>>]
  ELSE IF ~WellDelimited(e.vunits) THEN [c |-> "WellDelimited", alarm |-> FALSE, at |-> <<0, 0>>]
  ELSE IF ~OffsetsChain(e.vunits) THEN [c |-> "OffsetsChain", alarm |-> FALSE, at |-> <<0, 0>>]
  ELSE [c |-> "ok", alarm |-> FALSE, at |-> <<0, 0>>]

TraceInit == l = 1 /\ bad = <<>>
TraceNext ==
  /\ l <= Len(Log)
  /\ l' = l + 1
  /\ LET e == Log[l] IN
     IF e.ev = "skip" THEN UNCHANGED bad
     ELSE LET v == Verdict(e) IN
          bad' = IF v.c = "ok" THEN bad
                 ELSE Append(bad, [tid |-> e.tid, line |-> l, clause |-> v.c, alarm |-> v.alarm, at |-> v.at])
TraceSpec == TraceInit /\ [][TraceNext]_tvars
Report == l = Len(Log) + 1 => PrintT(<<"BAD", ToJson(bad)>>)
AllConsumed == TLCGet("stats").diameter - 1 = Len(Log)
=============================================================================
