-------------------------------- MODULE BitIO --------------------------------
(* Bit-level readers and writers of vc2_conformance (property C20).                           *)
(*                                                                                             *)
(* Two machines share this module (variable `mode`):                                           *)
(*  "w"  a BitstreamWriter executing a program of write primitives, bounded blocks, seeks and  *)
(*       flushes (one action per public method; state = flushed view of the file, bit         *)
(*       position, bounded-block counter; BitIORef.tla ties it to the literal current-byte      *)
(*       machine of bitstream/io.py).  Every state carries    *)
(*       `fin`: the flushed file and, per step, whether the bits the step placed are still     *)
(*       intact in it (seek() clobbers the rest of the byte it lands in - documented).         *)
(*  "r"  a reader executing a program of read primitives over a file chosen from *every* bit   *)
(*       string up to MaxBits bits (padded to whole bytes with each pad bit in Pads).          *)
(* The driver replays each history on the real BitstreamWriter / BitstreamReader / decoder.io. *)
EXTENDS BitIOOps, FiniteSets, TLC

CONSTANTS Modes,      \* subset of {"w", "r"}
          MaxLen,     \* longest program
          MaxBits,    \* reader mode: longest bit string
          Pads,       \* reader mode: pad bits used to complete the last byte
          Bases       \* writer mode: byte position of the file object when the writer is created
                      \* (the file already holds that many bytes, e.g. an earlier stream or a container header)

VARIABLES mode, f, w, r, out, pre, inp, hist, fin, base
vars == <<mode, f, w, r, out, pre, inp, hist, fin, base>>

(* ---- operation alphabet (cfg files may substitute bigger sets) -------------------------- *)
O(op, n, v, s) == [op |-> op, n |-> n, v |-> v, s |-> s]

NbitsArgs   == {<<0, 0>>, <<0, 1>>, <<1, 1>>, <<3, 5>>, <<3, 7>>, <<3, 8>>, <<3, -1>>, <<9, 257>>, <<9, 511>>}
UintLitArgs == {<<1, 165>>, <<1, 256>>}
UVals       == {-1, 0, 1, 2, 3, 6, 7}
SVals       == {-3, -1, 0, 1, 2, 4}
BitArrArgs  == {<<0, <<>>>>, <<3, <<1, 0, 1>>>>, <<3, <<1>>>>, <<2, <<1, 1, 1>>>>, <<4, <<1, 1, 1, 1>>>>, <<10, <<1>>>>}
BytesArgs   == {<<1, <<165>>>>, <<2, <<255>>>>, <<3, <<129>>>>, <<0, <<1>>>>, <<1, <<>>>>}
BLens       == {-2, 0, 1, 2, 3, 5, 8}
WSeeks      == {0, 1} \X {7, 3}

WOps ==      {O("bit", 0, v, <<>>) : v \in {0, 1}}
        \cup {O("nbits", a[1], a[2], <<>>) : a \in NbitsArgs}
        \cup {O("uintlit", a[1], a[2], <<>>) : a \in UintLitArgs}
        \cup {O("uint", 0, v, <<>>) : v \in UVals}
        \cup {O("sint", 0, v, <<>>) : v \in SVals}
        \cup {O("bitarray", a[1], 0, a[2]) : a \in BitArrArgs}
        \cup {O("bytes", a[1], 0, a[2]) : a \in BytesArgs}
        \cup {O("bbegin", n, 0, <<>>) : n \in BLens}
        \cup {O("bend", 0, 0, <<>>), O("flush", 0, 0, <<>>)}
        \cup {O("seek", a[1], a[2], <<>>) : a \in WSeeks}

RNs    == {0, 2, 9}
RSeeks == {0, 1, 2} \X {7, 4, 0}
ROps ==      {O("bit", 0, 0, <<>>), O("uint", 0, 0, <<>>), O("sint", 0, 0, <<>>), O("uintlit", 1, 0, <<>>),
              O("bitarray", 3, 0, <<>>), O("bytes", 1, 0, <<>>), O("bend", 0, 0, <<>>),
              O("bendflush", 0, 0, <<>>), O("align", 0, 0, <<>>)}
        \cup {O("nbits", n, 0, <<>>) : n \in RNs}
        \cup {O("bbegin", n, 0, <<>>) : n \in BLens}
        \cup {O("seek", a[1], a[2], <<>>) : a \in RSeeks}

(* ---- files for the reader machine -------------------------------------------------------- *)
PadTo8(s, p) == s \o [i \in 1..((8 - (Len(s) % 8)) % 8) |-> p]
Files == {PadTo8(s, p) : s \in UNION {[1..k -> {0, 1}] : k \in 0..MaxBits}, p \in Pads}

(* ---- what the flushed file looks like and which steps are still readable ---------------- *)
Intact(ff, s) ==
  /\ s.o.op \in ValueOps /\ s.err = "none"
  /\ s.p0 + s.placed <= Len(ff)
  /\ \A i \in 1..s.placed : ff[s.p0 + i] = s.emit[i]

Final(ww, h) == LET ff == ww.buf IN
                [file |-> ff, intact |-> [i \in 1..Len(h) |-> Intact(ff, h[i])]]
NoFin == [file |-> <<>>, intact |-> <<>>]

(* A writer created on a file object positioned after `base` existing bytes: positions (tell, seek) are  *)
(* positions in the FILE, so the writer starts at bit 8 * base of a file that already has content.       *)
PrefixBits(b) == [i \in 1..(8 * b) |-> <<1, 0, 1, 0, 0, 1, 0, 1>>[((i - 1) % 8) + 1]]

Init == /\ mode \in Modes
        /\ f \in (IF mode = "r" THEN Files ELSE {<<>>})
        /\ base \in (IF mode = "w" THEN Bases ELSE {0})
        /\ w = [W0 EXCEPT !.buf = PrefixBits(base), !.pos = 8 * base] /\ r = R0
        /\ out = [err |-> "none"]
        /\ pre = R0 /\ inp = O("init", 0, 0, <<>>) /\ hist = <<>> /\ fin = NoFin

WStep(o) ==
  /\ mode = "w" /\ Len(hist) < MaxLen
  /\ out.err # "ValueError"                     \* a rejected 0 leaves a half-written primitive: stop
  /\ LET a == WOp(w, o) IN
     /\ w' = a.w
     /\ out' = [err |-> a.err, placed |-> a.placed]
     /\ hist' = Append(hist, [o |-> o, p0 |-> WPos(w), on0 |-> w.on, rem0 |-> w.rem,
                              p1 |-> WPos(a.w), on1 |-> a.w.on, rem1 |-> a.w.rem,
                              err |-> a.err, placed |-> a.placed,
                              len |-> IF o.op = "uint" /\ o.v >= 0 THEN UintLen(o.v)
                                      ELSE IF o.op = "sint" THEN SintLen(o.v) ELSE 0,
                              emit |-> IF o.op \in ValueOps /\ ~OutOfRange(o) THEN Emit(o) ELSE <<>>])
     /\ fin' = Final(a.w, hist')
  /\ pre' = w /\ inp' = o /\ UNCHANGED <<mode, f, r, base>>

RStep(o) ==
  /\ mode = "r" /\ Len(hist) < MaxLen
  /\ o.op = "align" => (~r.on /\ (r.pos % 8 = 0 \/ r.pos < Len(f)))   \* not in a block, not mid-byte past the end
  /\ LET a == ROp(f, r, o) IN
     /\ r' = a.r
     /\ out' = [err |-> a.err, v |-> a.v]
     /\ hist' = Append(hist, [o |-> o, v |-> a.v, err |-> a.err, pos |-> a.r.pos, on |-> a.r.on, rem |-> a.r.rem,
                              pastend |-> o.op = "bit" /\ r.on /\ r.rem <= 0])
  /\ pre' = r /\ inp' = o /\ UNCHANGED <<mode, f, w, fin, base>>

WK(k) == \E o \in {x \in WOps : x.op = k} : WStep(o)
RK(k) == \E o \in {x \in ROps : x.op = k} : RStep(o)
\* one named action per public method (per-action coverage is reported in the evidence)
WriteBit == WK("bit")
WriteNBits == WK("nbits")
WriteUintLit == WK("uintlit")
WriteUint == WK("uint")
WriteSint == WK("sint")
WriteBitArray == WK("bitarray")
WriteBytes == WK("bytes")
WBlockBegin == WK("bbegin")
WBlockEnd == WK("bend")
WSeekTo == WK("seek")
WFlushNow == WK("flush")
ReadBit == RK("bit")
ReadNBits == RK("nbits")
ReadUintLit == RK("uintlit")
ReadUint == RK("uint")
ReadSint == RK("sint")
ReadBitArray == RK("bitarray")
ReadBytes == RK("bytes")
RBlockBegin == RK("bbegin")
RBlockEnd == RK("bend")
RBlockEndFlush == RK("bendflush")
RByteAlign == RK("align")
RSeekTo == RK("seek")

Next == \/ WriteBit \/ WriteNBits \/ WriteUintLit \/ WriteUint \/ WriteSint \/ WriteBitArray \/ WriteBytes
        \/ WBlockBegin \/ WBlockEnd \/ WSeekTo \/ WFlushNow
        \/ ReadBit \/ ReadNBits \/ ReadUintLit \/ ReadUint \/ ReadSint \/ ReadBitArray \/ ReadBytes
        \/ RBlockBegin \/ RBlockEnd \/ RBlockEndFlush \/ RByteAlign \/ RSeekTo

Spec == Init /\ [][Next]_vars

View == <<mode, f, base, pre, inp, w, r, out>>

(* ---- C20 as properties of the design ------------------------------------------------------ *)
(* P1: every intact step reads back as written, ending at the writer's position and block count *)
RoundTrip ==
  mode = "w" =>
    \A i \in 1..Len(hist) :
      fin.intact[i] =>
        LET s == hist[i]
            a == ROp(fin.file, [pos |-> s.p0, on |-> s.on0, rem |-> s.rem0], s.o) IN
        /\ a.err = "none"
        /\ a.v = Written(s.o)
        /\ a.r.pos = s.p1
        /\ a.r.on = s.on1 /\ (s.on1 => a.r.rem = s.rem1)

(* P1 for programs without seek: every successful value write is intact *)
NoSeekAllIntact ==
  (mode = "w" /\ \A i \in 1..Len(hist) : hist[i].o.op # "seek") =>
     \A i \in 1..Len(hist) : (hist[i].o.op \in ValueOps /\ hist[i].err = "none") => fin.intact[i]

(* P2: exp-Golomb length functions = bits written (outside bounded blocks) *)
LengthLaw ==
  mode = "w" =>
    \A i \in 1..Len(hist) :
      LET s == hist[i] IN
      (s.o.op \in {"uint", "sint"} /\ s.err = "none" /\ ~s.on0) =>
          /\ s.p1 - s.p0 = s.len /\ s.placed = s.len
          /\ s.len = Len(Emit(s.o))

(* P3: out-of-range values are refused with nothing written *)
OutOfRangeLaw ==
  mode = "w" =>
    \A i \in 1..Len(hist) :
      LET s == hist[i] IN
      /\ (s.o.op \in ValueOps /\ OutOfRange(s.o)) <=> s.err = "OutOfRangeError"
      /\ s.err = "OutOfRangeError" => (s.p1 = s.p0 /\ s.placed = 0 /\ s.rem1 = s.rem0)
OutOfRangeNoWrite == [][(mode = "w" /\ out'.err = "OutOfRangeError") => w' = w]_vars

(* P4 (writer): past the end of a bounded block a 1 is accepted and dropped, a 0 is rejected *)
WriterBlockLaw ==
  mode = "w" =>
    \A i \in 1..Len(hist) :
      LET s == hist[i] IN
      (s.o.op = "bit" /\ s.on0 /\ s.rem0 <= 0) =>
         /\ s.p1 = s.p0 /\ s.placed = 0
         /\ s.err = (IF s.o.v = 1 THEN "none" ELSE "ValueError")
(* P4 (reader): past the end of a bounded block reads yield 1 and do not move *)
ReaderBlockLaw ==
  [][(mode = "r" /\ inp'.op = "bit" /\ r.on /\ r.rem <= 0) =>
        (out'.v = 1 /\ out'.err = "none" /\ r'.pos = r.pos)]_vars

(* what was in the file before the writer was created survives any program without seeks *)
PrefixKept ==
  (mode = "w" /\ \A i \in 1..Len(hist) : hist[i].o.op # "seek") =>
     (Len(w.buf) >= 8 * base /\ SubSeq(w.buf, 1, 8 * base) = PrefixBits(base))

TypeOK == /\ Len(w.buf) % 8 = 0 /\ Len(f) % 8 = 0
=============================================================================
