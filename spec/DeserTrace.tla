----------------------------- MODULE DeserTrace -----------------------------
(* Validation of recorded round trips Deserialiser -> Serialiser -> Deserialiser (C06).      *)
(* One line per byte string: whether the deserialiser parsed it to completion, the data      *)
(* units it read (parse code, fragment_slice_count or -1), whether the description could be  *)
(* serialised again, whether the bytes and the re-read description were identical; hvx/hve/  *)
(* hvg: for streams built from a history of Deser.tla, the huge values (base-2^15 limbs) the   *)
(* history's codes stand for and the integers of 31 bits or more the description reports.     *)
EXTENDS DeserOps, Json, IOUtils, TLCExt

Log == ndJsonDeserialize(IOEnv.TRACE_FILE)
VARIABLES l, bad
tvars == <<l, bad>>

(* parse-code predicates of the standard (10.5.2), by arithmetic on the code *)
Bit(pc, b) == (pc \div b) % 2 = 1
IsPicture(pc)  == Bit(pc, 128) /\ Bit(pc, 8) /\ ~Bit(pc, 4)
IsFragment(pc) == Bit(pc, 8) /\ Bit(pc, 4)
Prof(pc) == IF pc - (pc % 8) = 200 THEN "ld" ELSE IF pc - (pc % 8) = 232 THEN "hq" ELSE "none"
Abstract(x) ==
  LET pc == x[1] fsc == x[2] IN
  IF pc = 0 THEN [k |-> "SH"]
  ELSE IF pc = 16 THEN [k |-> "EOS"]
  ELSE IF IsPicture(pc) THEN [k |-> "PIC", prof |-> Prof(pc)]
  ELSE IF IsFragment(pc) THEN [k |-> IF fsc = 0 THEN "FRAG0" ELSE "FRAGN", prof |-> Prof(pc)]
  ELSE IF pc - (pc % 8) = 32 \/ pc = 48 THEN [k |-> "DATA", npo |-> "exact"]
  ELSE [k |-> "UNK"]

Flat(seqs) == LET F[i \in 0..Len(seqs)] == IF i = 0 THEN <<>> ELSE F[i - 1] \o seqs[i] IN F[Len(seqs)]
Units(e) == LET f == Flat(e.seqs) IN [i \in 1..Len(f) |-> Abstract(f[i])]

(* C06, exactly: parsed to completion => serialises, same bytes, same description *)
Verdict(e) ==
  IF ~e.parsed THEN [c |-> "ok", alarm |-> FALSE]
  ELSE IF ~e.ser_ok THEN [c |-> "Reserialises", alarm |-> TRUE]
  ELSE IF ~e.same_bytes THEN [c |-> "SameBytes", alarm |-> TRUE]
  ELSE IF ~(e.redes_ok /\ e.same_desc) THEN [c |-> "SameDescription", alarm |-> TRUE]
  \* spec-only: the huge exp-Golomb values the stream was built from (limbs derived by Deser.tla from the codes)
  \* are the huge values the description reports
  ELSE IF e.hvx /\ e.hve # e.hvg THEN [c |-> "HugeValuesRead", alarm |-> FALSE]
  \* spec-only: the units the parser reports form a history the outcome machine completes on
  ELSE IF ~(\A k \in 1..Len(e.seqs) : Len(e.seqs[k]) >= 1 /\ e.seqs[k][Len(e.seqs[k])][1] = 16)
       THEN [c |-> "SequenceEndsWithEOS", alarm |-> FALSE]
  ELSE IF ~WellFormed(Units(e)) THEN [c |-> "MachineCompletes", alarm |-> FALSE]
  ELSE [c |-> "ok", alarm |-> FALSE]

TraceInit == l = 1 /\ bad = <<>>
TraceNext ==
  /\ l <= Len(Log)
  /\ l' = l + 1
  /\ LET e == Log[l] v == Verdict(e) IN
     bad' = IF v.c = "ok" THEN bad
            ELSE Append(bad, [tid |-> e.tid, line |-> l, clause |-> v.c, alarm |-> v.alarm])
TraceSpec == TraceInit /\ [][TraceNext]_tvars
Report == l = Len(Log) + 1 => PrintT(<<"BAD", ToJson(bad)>>)
AllConsumed == TLCGet("stats").diameter - 1 = Len(Log)
=============================================================================
