--------------------------- MODULE AutofillTrace ---------------------------
(* Validation of what autofill_and_serialise_stream really produced (property C07).        *)
(* One log line per stream description: the description (per unit: the explicit / AUTO      *)
(* fields `f`, payload length `blen`) together with what an independent reader found in     *)
(* the produced bytes (per unit: byte position `off` of its parse_info, output fields `o`). *)
(* Every output field of every unit is judged against the AutofillOps design; verdicts are  *)
(* total (first failing clause per stream is named, evaluation never blocks).               *)
EXTENDS AutofillOps, Json, IOUtils, TLCExt

Log == ndJsonDeserialize(IOEnv.TRACE_FILE)

VARIABLES l, bad
tvars == <<l, bad>>

Dom(x) == IF x = <<>> THEN {} ELSE DOMAIN x        \* JSON {} arrives as the empty sequence

UF(u) == [f |-> u.f, blen |-> u.blen]

(* clause an output field violates ("ok" if none) -- exactly the statement of C07 *)
FieldClause(s, i, n) ==
  LET u == s[i] IN
  IF IsExp(u, n) THEN (IF u.o[n] = u.f[n].i THEN "ok" ELSE "ExplicitPreserved")
  ELSE IF n = "pn"  THEN (IF u.o[n] = ExpectedPN(s, i) THEN "ok" ELSE "PictureNumber")
  ELSE IF n = "ver" THEN (IF u.o[n] = MinVersion(s) THEN "ok" ELSE "MajorVersion")
  ELSE IF n = "npo" THEN (IF u.o[n] = W32(IF i = Len(s) THEN 0 ELSE s[i + 1].off - u.off)
                          THEN "ok" ELSE "NextOffset")
  ELSE IF n = "ppo" THEN (IF u.o[n] = W32(IF i = 1 THEN 0 ELSE u.off - s[i - 1].off)
                          THEN "ok" ELSE "PrevOffset")
  ELSE (IF u.o[n] = Default[n] THEN "ok" ELSE "Default")

Dropped(s, i) == {n \in Dom(s[i].f) : IsExp(s[i], n) /\ n \notin Dom(s[i].o)
                                       /\ ~(n \in ETPFields /\ ETPRemoved(s, i))}

Units(e) == UNION {{<<k, i>> : i \in 1..Len(e.seqs[k])} : k \in 1..Len(e.seqs)}
Failing(e) ==
  UNION {{<<x[1], x[2], n, FieldClause(e.seqs[x[1]], x[2], n)>> : n \in Dom(e.seqs[x[1]][x[2]].o)}
         : x \in Units(e)}
AlarmSet(e) ==
  {x \in Failing(e) : x[4] # "ok"}
  \cup UNION {{<<x[1], x[2], n, "ExplicitDropped">> : n \in Dropped(e.seqs[x[1]], x[2])}
             : x \in Units(e)}

(* spec-only predictions: compared, logged, never an alarm (rule R1) *)
Predicted(e) == \A k \in 1..Len(e.seqs) : SeqSerialisable(e.seqs[k])
PadLenOK(e) == \A k \in 1..Len(e.seqs) : \A i \in 1..Len(e.seqs[k]) :
                 LET u == e.seqs[k][i] IN
                 (IsPad(u) \/ IsAux(u)) /\ IsAuto(u, "npo") /\ "npo" \in Dom(u.o)
                    => u.o["npo"] = W32(13 + u.blen)

Verdict(e) ==
  IF ~e.ser
  THEN (IF Predicted(e) THEN [c |-> "PremisePrediction", alarm |-> FALSE, at |-> <<0, 0, "">>]
        ELSE [c |-> "ok", alarm |-> FALSE, at |-> <<0, 0, "">>])
  ELSE IF ~e.aligned THEN [c |-> "UnitCount", alarm |-> TRUE, at |-> <<0, 0, "">>]
  ELSE LET A == AlarmSet(e) IN
       IF A # {} THEN LET x == CHOOSE y \in A : TRUE IN
                      [c |-> x[4], alarm |-> TRUE, at |-> <<x[1], x[2], x[3]>>]
       ELSE IF ~Predicted(e) THEN [c |-> "PremisePrediction", alarm |-> FALSE, at |-> <<0, 0, "">>]
       ELSE IF ~PadLenOK(e) THEN [c |-> "PaddingLength", alarm |-> FALSE, at |-> <<0, 0, "">>]
       \* the stream was written into a file that already held e.base bytes: they are not the stream's to change
       ELSE IF ~e.prefix_ok THEN [c |-> "FilePrefixChanged", alarm |-> FALSE, at |-> <<0, 0, "">>]
       ELSE [c |-> "ok", alarm |-> FALSE, at |-> <<0, 0, "">>]

TraceInit == l = 1 /\ bad = <<>>
TraceNext ==
  /\ l <= Len(Log)
  /\ l' = l + 1
  /\ LET e == Log[l]
         v == Verdict(e) IN
     bad' = IF v.c = "ok" THEN bad
            ELSE Append(bad, [tid |-> e.tid, line |-> l, clause |-> v.c, alarm |-> v.alarm,
                              seq |-> v.at[1], unit |-> v.at[2], field |-> v.at[3]])
TraceSpec == TraceInit /\ [][TraceNext]_tvars

Report == l = Len(Log) + 1 => PrintT(<<"BAD", ToJson(bad)>>)
AllConsumed == TLCGet("stats").diameter - 1 = Len(Log)
=============================================================================
