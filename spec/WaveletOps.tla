------------------------------ MODULE WaveletOps ------------------------------
(* Wavelet filtering of SMPTE ST 2042-1 section 15.4 (property C11): pure operators shared  *)
(* by Wavelet.tla (exhaustive model) and WaveletTrace.tla (validation of values recorded    *)
(* from vc2_conformance/pseudocode/picture_encoding.py and picture_decoding.py).            *)
(*                                                                                          *)
(* Filters: index -> [shift, stages], stages = sequence of [type, S, L, D, taps]; supplied  *)
(* by a module GENERATED at run time from the third-party package vc2_data_tables           *)
(* (cfg: CONSTANT Filters <- TableFilters).                                                 *)
(*                                                                                          *)
(* Synthesis (15.4.4.1) is transcribed from the standard.  Analysis is DEFINED as its       *)
(* inverse: stages in reverse order with add and subtract swapped, and the bit shift        *)
(* applied before instead of after.  Why this is exact for all integers (TLC checks finite  *)
(* instances): a lifting stage changes only one phase (even or odd samples) by a function   *)
(* of the other, untouched phase; re-computing the same function from the untouched phase   *)
(* and applying the opposite sign restores the changed phase exactly, whatever the taps,    *)
(* rounding and edge clamping are.  The shift is exact because (v*2^s + 2^(s-1)) div 2^s = v.*)
EXTENDS Integers, Sequences, TLC, SliceGeometryOps

CONSTANT Filters

(* ------------------------------ arrays ------------------------------------------------- *)
Height(a) == Len(a)
Width(a)  == IF Len(a) = 0 THEN 0 ELSE Len(a[1])
(* TLC evaluates [x \in S |-> e] lazily (every application re-evaluates e); Seal forces a     *)
(* concrete sequence so that nested transforms stay linear.  Semantically the identity.      *)
Seal(s) == SubSeq(s, 1, Len(s))
Seal2(a) == Seal([y \in 1..Len(a) |-> Seal(a[y])])
Transpose(a) == Seal2([x \in 1..Width(a) |-> [y \in 1..Height(a) |-> a[y][x]]])
MapRows(a, F(_)) == Seal([y \in 1..Height(a) |-> F(a[y])])
MapCols(a, F(_)) == Transpose(MapRows(Transpose(a), F))
MapVals(a, F(_)) == Seal2([y \in 1..Height(a) |-> [x \in 1..Width(a) |-> F(a[y][x])]])

(* ------------------------------ 15.4.4.1 lifting --------------------------------------- *)
ClampI(p, lo, hi) == IF p < lo THEN lo ELSE IF p > hi THEN hi ELSE p
SwapType(t) == CASE t = 1 -> 2 [] t = 2 -> 1 [] t = 3 -> 4 [] OTHER -> 3
UpdatesEven(t) == t \in {1, 2}
Adds(t) == t \in {1, 3}

(* A: 1-based sequence of even length; positions below are the standard's 0-based ones *)
RECURSIVE TapSum(_, _, _, _, _)
TapSum(A, st, t, n, i) ==
  IF i >= st.L + st.D THEN 0
  ELSE LET pos == IF UpdatesEven(t) THEN ClampI(2 * (n + i) - 1, 1, Len(A) - 1)
                  ELSE ClampI(2 * (n + i), 0, Len(A) - 2) IN
       st.taps[i - st.D + 1] * A[pos + 1] + TapSum(A, st, t, n, i + 1)

LiftDelta(A, st, t, n) ==
  LET s == TapSum(A, st, t, n, st.D) IN
  (IF st.S > 0 THEN s + 2 ^ (st.S - 1) ELSE s) \div (2 ^ st.S)      \* >> S: floor

(* one lifting stage with lift type t (t = st.type for synthesis, SwapType for analysis) *)
Lift(A, st, t) ==
  Seal([k \in 1..Len(A) |->
     LET p == k - 1 IN
     IF UpdatesEven(t) = (p % 2 = 0)
     THEN (IF Adds(t) THEN A[k] + LiftDelta(A, st, t, p \div 2)
                      ELSE A[k] - LiftDelta(A, st, t, p \div 2))
     ELSE A[k]])

RECURSIVE SynthFrom(_, _, _)
SynthFrom(A, stages, i) == IF i > Len(stages) THEN A
                           ELSE SynthFrom(Lift(A, stages[i], stages[i].type), stages, i + 1)
Synth1D(A, f) == SynthFrom(A, Filters[f].stages, 1)

RECURSIVE AnalyseFrom(_, _, _)
AnalyseFrom(A, stages, i) == IF i < 1 THEN A
                             ELSE AnalyseFrom(Lift(A, stages[i], SwapType(stages[i].type)), stages, i - 1)
Analyse1D(A, f) == AnalyseFrom(A, Filters[f].stages, Len(Filters[f].stages))

(* ------------------------------ 15.4.2 / 15.4.3 two dimensions -------------------------- *)
ShiftUp(a, s) == IF s = 0 THEN a ELSE MapVals(a, LAMBDA v : v * 2 ^ s)
ShiftDown(a, s) == IF s = 0 THEN a ELSE MapVals(a, LAMBDA v : (v + 2 ^ (s - 1)) \div 2 ^ s)
FShift(fho) == Filters[fho].shift              \* filter_bit_shift: the horizontal filter's

Phase(a, py, px) == Seal2([y \in 1..(Height(a) \div 2) |-> [x \in 1..(Width(a) \div 2) |-> a[2 * y - 1 + py][2 * x - 1 + px]]])
PhaseX(a, px) == Seal2([y \in 1..Height(a) |-> [x \in 1..(Width(a) \div 2) |-> a[y][2 * x - 1 + px]]])

HAnalysis(a, fho) ==
  LET t == MapRows(ShiftUp(a, FShift(fho)), LAMBDA r : Analyse1D(r, fho)) IN
  [L |-> PhaseX(t, 0), H |-> PhaseX(t, 1)]

VHAnalysis(a, f, fho) ==
  LET t1 == MapRows(ShiftUp(a, FShift(fho)), LAMBDA r : Analyse1D(r, fho))
      t  == MapCols(t1, LAMBDA c : Analyse1D(c, f)) IN
  [LL |-> Phase(t, 0, 0), HL |-> Phase(t, 0, 1), LH |-> Phase(t, 1, 0), HH |-> Phase(t, 1, 1)]

HSynthesis(L, H, fho) ==
  LET il == Seal2([y \in 1..Height(L) |-> [x \in 1..(2 * Width(L)) |->
               IF x % 2 = 1 THEN L[y][(x + 1) \div 2] ELSE H[y][x \div 2]]])
      t == MapRows(il, LAMBDA r : Synth1D(r, fho)) IN
  ShiftDown(t, FShift(fho))

VHSynthesis(LL, HL, LH, HH, f, fho) ==
  LET il == Seal2([y \in 1..(2 * Height(LL)) |-> [x \in 1..(2 * Width(LL)) |->
               LET yy == (y + 1) \div 2
                   xx == (x + 1) \div 2 IN
               IF y % 2 = 1 THEN (IF x % 2 = 1 THEN LL[yy][xx] ELSE HL[yy][xx])
               ELSE (IF x % 2 = 1 THEN LH[yy][xx] ELSE HH[yy][xx])]])
      t1 == MapCols(il, LAMBDA c : Synth1D(c, f))
      t  == MapRows(t1, LAMBDA r : Synth1D(r, fho)) IN
  ShiftDown(t, FShift(fho))

(* ------------------------------ 15.4.1 multi-level -------------------------------------- *)
(* coefficient data: function level -> record of bands; level 0 holds [DC |-> ...]          *)
RECURSIVE DwtVH(_, _, _, _, _, _)
DwtVH(dc, f, fho, n, lowest, acc) ==
  IF n < lowest THEN [dc |-> dc, bands |-> acc]
  ELSE LET r == VHAnalysis(dc, f, fho) IN
       DwtVH(r.LL, f, fho, n - 1, lowest, acc @@ (n :> [HL |-> r.HL, LH |-> r.LH, HH |-> r.HH]))
RECURSIVE DwtH(_, _, _, _)
DwtH(dc, fho, n, acc) ==
  IF n < 1 THEN [dc |-> dc, bands |-> acc]
  ELSE LET r == HAnalysis(dc, fho) IN DwtH(r.L, fho, n - 1, acc @@ (n :> [H |-> r.H]))
Dwt(pic, f, fho, d, dho) ==
  LET a == DwtVH(pic, f, fho, dho + d, dho + 1, <<>>)
      b == DwtH(a.dc, fho, dho, a.bands) IN
  b.bands @@ (0 :> [DC |-> b.dc])

RECURSIVE IdwtH(_, _, _, _, _)
IdwtH(dc, co, fho, n, dho) == IF n > dho THEN dc ELSE IdwtH(HSynthesis(dc, co[n].H, fho), co, fho, n + 1, dho)
RECURSIVE IdwtVH(_, _, _, _, _, _)
IdwtVH(dc, co, f, fho, n, top) ==
  IF n > top THEN dc ELSE IdwtVH(VHSynthesis(dc, co[n].HL, co[n].LH, co[n].HH, f, fho), co, f, fho, n + 1, top)
Idwt(co, f, fho, d, dho) == IdwtVH(IdwtH(co[0].DC, co, fho, 1, dho), co, f, fho, dho + 1, dho + d)

(* ------------------------------ 15.4.5 padding ------------------------------------------ *)
Pad(pic, pw, ph) ==
  Seal2([y \in 1..ph |-> [x \in 1..pw |->
     pic[IF y > Height(pic) THEN Height(pic) ELSE y][IF x > Width(pic) THEN Width(pic) ELSE x]]])
Crop(pic, w, h) == Seal2([y \in 1..h |-> [x \in 1..w |-> pic[y][x]]])

Encode(pic, f, fho, d, dho) ==
  Dwt(Pad(pic, PaddedWidth(Width(pic), d, dho), PaddedHeight(Height(pic), d, dho)), f, fho, d, dho)
Decode(co, w, h, f, fho, d, dho) == Crop(Idwt(co, f, fho, d, dho), w, h)

(* ------------------------------ 15.3 / 15.2 the whole picture (state level) ------------- *)
(* forward_wavelet_transform / inverse_wavelet_transform work on the three components of a  *)
(* picture under ONE set of transform parameters; the sizes come from the state: luma_width *)
(* x luma_height for Y, color_diff_width x color_diff_height for C1 and C2.  The two sizes  *)
(* are independent of each other (4:4:4, 4:2:2, 4:2:0, odd luma sizes, anything): each      *)
(* component is padded to ITS OWN padded size, so one may need padding when the other does  *)
(* not.  sz = [lw, lh, cw, ch]; a picture / coefficient set is a function on CompNames.     *)
CompNames == {"Y", "C1", "C2"}
CompOrder == <<"Y", "C1", "C2">>
CompW(sz, c) == IF c = "Y" THEN sz.lw ELSE sz.cw
CompH(sz, c) == IF c = "Y" THEN sz.lh ELSE sz.ch
NeedsPadding(w, h, d, dho) == PaddedWidth(w, d, dho) # w \/ PaddedHeight(h, d, dho) # h

EncodeSized(a, w, h, f, fho, d, dho) == Dwt(Pad(a, PaddedWidth(w, d, dho), PaddedHeight(h, d, dho)), f, fho, d, dho)
ForwardWaveletTransform(p, sz, f, fho, d, dho) ==
  [c \in CompNames |-> EncodeSized(p[c], CompW(sz, c), CompH(sz, c), f, fho, d, dho)]
InverseWaveletTransform(co, sz, f, fho, d, dho) ==
  [c \in CompNames |-> Decode(co[c], CompW(sz, c), CompH(sz, c), f, fho, d, dho)]

(* 15.5: picture_encode removes the offset 2^(depth-1) first, picture_decode clips and adds  *)
(* it back last; dp = [y, c] = luma_depth, color_diff_depth.  Exact for in-range samples.    *)
CompDepth(dp, c) == IF c = "Y" THEN dp.y ELSE dp.c
Clip(v, lo, hi) == IF v < lo THEN lo ELSE IF v > hi THEN hi ELSE v
RemoveOffset(p, dp) == [c \in CompNames |-> MapVals(p[c], LAMBDA v : v - 2 ^ (CompDepth(dp, c) - 1))]
ClipAndOffset(p, dp) ==
  [c \in CompNames |->
     LET half == 2 ^ (CompDepth(dp, c) - 1) IN MapVals(p[c], LAMBDA v : Clip(v, 0 - half, half - 1) + half)]
InRange(p, dp) == \A c \in CompNames : \A y \in 1..Height(p[c]) : \A x \in 1..Width(p[c]) :
                    p[c][y][x] >= 0 /\ p[c][y][x] <= 2 ^ CompDepth(dp, c) - 1
PictureEncodeOp(p, sz, dp, f, fho, d, dho) == ForwardWaveletTransform(RemoveOffset(p, dp), sz, f, fho, d, dho)
PictureDecodeOp(co, sz, dp, f, fho, d, dho) == ClipAndOffset(InverseWaveletTransform(co, sz, f, fho, d, dho), dp)

(* ============================ the property, on tables ================================== *)
Reconstructs(pic, rec) == rec = pic
(* expected band names per level *)
BandNames(level, d, dho) == IF level = 0 THEN (IF dho = 0 THEN {"LL"} ELSE {"L"})
                            ELSE IF level <= dho THEN {"H"} ELSE {"HL", "LH", "HH"}
=============================================================================
