--------------------------- MODULE SliceGeometryOps ---------------------------
(* Pure operators for slice geometry (SMPTE ST 2042-1 13.2.3, 13.5.6.2, 13.5.3.2), shared  *)
(* by SliceGeometry.tla (exhaustive model), SliceGeometryTrace.tla (validation of values   *)
(* recorded from vc2_conformance/pseudocode/slice_sizes.py) and Wavelet*.tla (shapes).     *)
(*                                                                                         *)
(* Two layers, kept apart on purpose:                                                      *)
(*  - the DESIGN (formulas of the standard): SubbandWidth, SliceLeft, SliceBytes ...       *)
(*  - the PROPERTY (C13) as predicates over *any* table of numbers, however obtained:      *)
(*    Partition, DimsMatchPadded, AllSlicesSame, BytesNonNeg, BytesSum.  The exhaustive    *)
(*    model applies them to the design's numbers, the trace spec to the code's numbers.    *)
EXTENDS Integers, Sequences, FiniteSets

Pow2(k) == 2 ^ k

(* ------------------------------ design: 13.2.3 ----------------------------------------- *)
CeilDiv(a, b) == (a + b - 1) \div b
PaddedWidth(w, d, dho)  == Pow2(d + dho) * CeilDiv(w, Pow2(d + dho))
PaddedHeight(h, d, dho) == Pow2(d) * CeilDiv(h, Pow2(d))

(* levels: 0 = DC band, 1..dho = horizontal-only levels, dho+1..dho+d = 2-D levels;        *)
(* level dho+d+1 is the (virtual) picture level used by the encoder's padding.             *)
SubbandWidth(w, d, dho, level) ==
  IF level = 0 THEN PaddedWidth(w, d, dho) \div Pow2(d + dho)
  ELSE PaddedWidth(w, d, dho) \div Pow2(d + dho - level + 1)

SubbandHeight(h, d, dho, level) ==
  IF level <= dho THEN PaddedHeight(h, d, dho) \div Pow2(d)
  ELSE PaddedHeight(h, d, dho) \div Pow2(d + dho - level + 1)

Levels(d, dho) == 0..(d + dho)

(* ------------------------------ design: 13.5.6.2 --------------------------------------- *)
SliceLo(n, s, S) == (n * s) \div S          \* slice_left / slice_top     (s = 0..S-1)
SliceHi(n, s, S) == (n * (s + 1)) \div S    \* slice_right / slice_bottom
LoSeq(n, S) == [i \in 1..S |-> SliceLo(n, i - 1, S)]
HiSeq(n, S) == [i \in 1..S |-> SliceHi(n, i - 1, S)]

(* ------------------------------ design: 13.5.3.2 --------------------------------------- *)
SliceBytes(k, num, den) == ((k + 1) * num) \div den - (k * num) \div den   \* slice number k
BytesSeq(N, num, den) == [i \in 1..N |-> SliceBytes(i - 1, num, den)]

(* design of the utility flag: all four DC-band extents divisible by the slice counts *)
SameDimsFlag(lw, lh, cw, ch, d, dho, sx, sy) ==
  /\ SubbandWidth(lw, d, dho, 0) % sx = 0 /\ SubbandHeight(lh, d, dho, 0) % sy = 0
  /\ SubbandWidth(cw, d, dho, 0) % sx = 0 /\ SubbandHeight(ch, d, dho, 0) % sy = 0

(* ============================ the property, on tables ================================== *)
(* lo, hi: sequences of S bounds; they partition 0..n-1 into S in-order, disjoint,         *)
(* contiguous (possibly empty) ranges covering every coefficient exactly once              *)
Partition(lo, hi, n) ==
  /\ Len(lo) = Len(hi) /\ Len(lo) >= 1
  /\ lo[1] = 0
  /\ hi[Len(hi)] = n
  /\ \A i \in 1..Len(lo) : lo[i] <= hi[i]
  /\ \A i \in 1..(Len(lo) - 1) : hi[i] = lo[i + 1]

(* the same thing said pointwise (used as a cross-check in the exhaustive model only):     *)
(* every coefficient index belongs to exactly one slice                                    *)
CoversOnce(lo, hi, n) ==
  \A c \in 0..(n - 1) : Cardinality({i \in 1..Len(lo) : lo[i] <= c /\ c < hi[i]}) = 1

(* sw, sh: functions level -> recorded width / height of the subbands of one component of  *)
(* size w x h.  "Match the padded picture for the transform": the DC band scaled up by     *)
(* the transform is the smallest picture >= w x h whose sides are multiples of the scale,  *)
(* and every level doubles the extent(s) its transform stage works on.                     *)
DimsMatchPadded(sw, sh, w, h, d, dho) ==
  LET pw == sw[0] * Pow2(d + dho)
      ph == sh[0] * Pow2(d) IN
  /\ pw >= w /\ pw - w < Pow2(d + dho)
  /\ ph >= h /\ ph - h < Pow2(d)
  /\ \A l \in 1..(d + dho) : sw[l] = sw[0] * Pow2(l - 1)
  /\ \A l \in 1..dho : sh[l] = sh[0]
  /\ \A l \in (dho + 1)..(d + dho) : sh[l] = sh[0] * Pow2(l - dho - 1)

AllEqual(lo, hi) == \A i, j \in 1..Len(lo) : hi[i] - lo[i] = hi[j] - lo[j]

(* low-delay slice sizes *)
BytesNonNeg(b) == \A i \in 1..Len(b) : b[i] >= 0
RECURSIVE SumSeq(_, _)
SumSeq(s, i) == IF i > Len(s) THEN 0 ELSE s[i] + SumSeq(s, i + 1)
BytesSum(b, N, num, den) == Len(b) = N /\ SumSeq(b, 1) = (N * num) \div den
=============================================================================
