----------------------------- MODULE ValueSets -----------------------------
(* Value sets of vc2_conformance/constraint_table.py (property C17, first sentence).       *)
(*                                                                                         *)
(* Two value-set objects A and B are built by histories of the public operations           *)
(* (add_value, add_range with lo <= hi, + with the other object, replacement by the      *)
(* AnyValue wildcard).  Each object is modelled twice: rep follows the code's            *)
(* representation and merge algorithm (ValueSetsOps Rep.. operators), den is the plain set the      *)
(* property speaks of (union of everything listed).  TLC checks that the algorithm         *)
(* denotes the union, that the end-point based is_disjoint equals emptiness of the         *)
(* intersection, and that the representation stays canonical.  Inverted ranges (lo > hi)   *)
(* are not "inclusive ranges" and are not generated (see DESIGN C17).                      *)
EXTENDS ValueSetsOps, TLC

CONSTANTS N,        \* values and range bounds are drawn from 0..N-1
          MaxLen    \* history length

U    == 0..(N - 1)
Wide == (0 - 2)..(N + 1)          \* membership is projected on a slightly larger universe
Regs == {"A", "B"}
Other(x) == IF x = "A" THEN "B" ELSE "A"

VARIABLES rep,   \* [Regs -> representation]
          obs,   \* what the driver must observe on the real objects after the last operation
          den,   \* [Regs -> denotation]          (ghost: the property's set)
          pre,   \* rep before the last operation (VIEW: one state per abstract transition)
          inp,   \* the last operation
          hist   \* history of operations leading here (not in VIEW: shortest one is dumped)

vars == <<rep, den, obs, pre, inp, hist>>

Ops ==      [op : {"add_value"}, reg : Regs, v : U]
       \cup {[op |-> "add_range", reg |-> x, lo |-> l, hi |-> h] : x \in Regs, l \in U, h \in U} 
       \cup [op : {"union", "any"}, reg : Regs]

Legal(o) == o.op = "add_range" => o.lo <= o.hi

RepPost(r, o) ==
  CASE o.op = "add_value" -> [r EXCEPT ![o.reg] = RepAddValue(@, o.v)]
    [] o.op = "add_range" -> [r EXCEPT ![o.reg] = RepAddRange(@, o.lo, o.hi)]
    [] o.op = "union"     -> [r EXCEPT ![o.reg] = RepUnion(@, r[Other(o.reg)])]
    [] o.op = "any"       -> [r EXCEPT ![o.reg] = AnyRep]

DenPost(d, o) ==
  CASE o.op = "add_value" -> [d EXCEPT ![o.reg] = DenAddValue(@, o.v)]
    [] o.op = "add_range" -> [d EXCEPT ![o.reg] = DenAddRange(@, o.lo, o.hi)]
    [] o.op = "union"     -> [d EXCEPT ![o.reg] = DenUnion(@, d[Other(o.reg)])]
    [] o.op = "any"       -> [d EXCEPT ![o.reg] = AnyDen]

(* what the driver observes on the real objects after a step, as predicted by the spec *)
Obs(r, d) == [ma |-> DenIn(d["A"], Wide), mb |-> DenIn(d["B"], Wide),
              dj |-> DenDisjoint(d["A"], d["B"]),
              anya |-> d["A"].any, anyb |-> d["B"].any,
              va |-> r["A"].vals, ra |-> r["A"].rngs, vb |-> r["B"].vals, rb |-> r["B"].rngs]

Init == /\ rep = [x \in Regs |-> EmptyRep] /\ den = [x \in Regs |-> EmptyDen]
        /\ obs = Obs(rep, den)
        /\ pre = [x \in Regs |-> EmptyRep] /\ inp = [op |-> "init"] /\ hist = <<>>

Do(o) == /\ Len(hist) < MaxLen
         /\ Legal(o)
         /\ rep' = RepPost(rep, o)
         /\ den' = DenPost(den, o)
         /\ pre' = rep /\ inp' = o
         /\ obs' = Obs(rep', den')
         /\ hist' = Append(hist, o)

AddValue == \E o \in Ops : o.op = "add_value" /\ Do(o)
AddRange == \E o \in Ops : o.op = "add_range" /\ Do(o)
Union    == \E o \in Ops : o.op = "union" /\ Do(o)
MakeAny  == \E o \in Ops : o.op = "any" /\ Do(o)
Next == AddValue \/ AddRange \/ Union \/ MakeAny

Spec == Init /\ [][Next]_vars

(* --- C17, first sentence ---------------------------------------------------------------- *)
\* the merge algorithm contains exactly the union of the listed values and inclusive ranges
ContainsExactlyUnion == \A x \in Regs : /\ rep[x].any = den[x].any
                                         /\ DenoteIn(rep[x], Wide) = DenIn(den[x], Wide)
\* the end-point test used by is_disjoint decides emptiness of the intersection, both ways round
DisjointCorrect == /\ RepDisjoint(rep["A"], rep["B"]) = DenDisjoint(den["A"], den["B"])
                   /\ RepDisjoint(rep["B"], rep["A"]) = DenDisjoint(den["A"], den["B"])
Canonical == \A x \in Regs : RepCanonical(rep[x])
\* vacuity guards (negated in the cfg of a separate run they would be reachable; here: sanity)
View == <<pre, inp, rep, den>>
=============================================================================
