----------------------------- MODULE ValueSets -----------------------------
(* Value sets of vc2_conformance/constraint_table.py (property C17, first sentence).       *)
(*                                                                                         *)
(* Value sets are OBJECTS with identity.  Two program variables A and B each name an       *)
(* object of a heap; the public operations are applied through the variables:              *)
(*   add_value / add_range (lo <= hi)  mutate the object the variable names, in place;   *)
(*   union  (dst = l + r, any choice of dst, l, r among the variables, l = r included)    *)
(*          allocates a FRESH object and rebinds dst to it;                                *)
(*   any    rebinds the variable to a fresh AnyValue wildcard;                             *)
(*   new    rebinds the variable to a fresh ValueSet of an argument list from CtorItems.     *)
(* Each set is modelled twice.  heap[o].rep follows the code's representation and merge  *)
(* algorithm (ValueSetsOps Rep.. operators) and has reference semantics (an object is      *)
(* changed through whatever names it).  den[x] is the plain set the property speaks of --  *)
(* "the union of the listed values and inclusive ranges" of the set variable x names -- and  *)
(* has value semantics: it is changed only by operations applied to x.  TLC checks that    *)
(* the two agree after any sequence of additions and unions (ContainsExactlyUnion), which  *)
(* requires that no operation makes two variables share state (NoSharing) and that an      *)
(* operation leaves every object other than the one it is applied to untouched             *)
(* (OthersUnchanged); further that the end-point based is_disjoint equals emptiness of the *)
(* intersection, and that the representation stays canonical.  Every object remembers how  *)
(* it was created (org), which is part of the VIEW: the transitions out of "x names the    *)
(* result of l + r" are enumerated (and replayed on the real code) separately from those   *)
(* out of an equal set built by additions, for every shape of the operands.                *)
(*                                                                                         *)
(* UnionImpl = "fresh" is the model of the code.  The other values describe unions that    *)
(* hand out one of their operands instead of a new object; they exist so that TLC          *)
(* demonstrates on every run that the invariants above reject such an implementation       *)
(* (mc/ValueSetsShare.cfg, expected to be violated).                                       *)
(* Inverted ranges (lo > hi) are not "inclusive ranges" and are not generated.             *)
EXTENDS ValueSetsOps, TLC

CONSTANTS N,         \* values and range bounds are drawn from 0..N-1
          MaxLen,    \* history length
          UnionImpl, \* "fresh" | "reuse_right" | "reuse_left" | "reuse_superset"
          Ctor       \* BOOLEAN: also the constructor with the argument lists CtorItems

U    == 0..(N - 1)
Wide == (0 - 2)..(N + 1)          \* membership is projected on a slightly larger universe
Regs == {"A", "B"}
Top  == N - 1

\* argument lists of ValueSet(...): several values / ranges at once, overlapping and chained
CtorItems == IF Ctor
             THEN { <<>>,
                    << <<"v", 1, 1>> >>,
                    << <<"r", 1, 2>> >>,
                    << <<"v", 0, 0>>, <<"r", 2, Top>> >>,
                    << <<"r", 0, 1>>, <<"r", Top, Top>>, <<"v", 1, 1>> >>,
                    << <<"r", 2, 2>>, <<"r", 0, 0>>, <<"r", 1, Top>> >> }
             ELSE {}

VARIABLES ref,   \* [Regs -> object id]: the object each variable names
          heap,  \* sequence of all objects ever allocated: [rep, org]; object id = index
          den,   \* [Regs -> denotation]   (ghost: the property's set, value semantics)
          obs,   \* what the driver must observe on the real objects after the last operation
          pre,   \* [ref, heap] before the last operation (VIEW: one state per abstract transition)
          inp,   \* the last operation
          hist   \* history of operations leading here (not in VIEW: shortest one is dumped)

vars == <<ref, heap, den, obs, pre, inp, hist>>

NoReg == "-"
Obj(r, how, l, rr) == [rep |-> r, org |-> <<how, l, rr>>]

Ops ==      [op : {"add_value"}, reg : Regs, v : U]
       \cup {[op |-> "add_range", reg |-> x, lo |-> l, hi |-> h] : x \in Regs, l \in U, h \in U}
       \cup [op : {"union"}, reg : Regs, l : Regs, r : Regs]
       \cup [op : {"any"}, reg : Regs]
       \cup [op : {"new"}, reg : Regs, items : CtorItems]

Legal(o) == o.op = "add_range" => o.lo <= o.hi

RepAt(rf, hp, x) == hp[rf[x]].rep
IsEmptyRep(r) == ~r.any /\ r.vals = {} /\ r.rngs = {}
Covers(a, b)  == ~a.any /\ ~b.any /\ DenoteIn(b, Wide) \subseteq DenoteIn(a, Wide)

\* the object (id) a deliberately wrong union hands out instead of a new one; 0 = allocate
Reused(rf, hp, o) ==
  LET a == RepAt(rf, hp, o.l)
      b == RepAt(rf, hp, o.r)
  IN CASE UnionImpl = "reuse_right"    -> IF IsEmptyRep(a) /\ ~b.any THEN rf[o.r] ELSE 0
       [] UnionImpl = "reuse_left"     -> IF IsEmptyRep(b) /\ ~a.any THEN rf[o.l] ELSE 0
       [] UnionImpl = "reuse_superset" -> IF Covers(a, b) THEN rf[o.l] ELSE IF Covers(b, a) THEN rf[o.r] ELSE 0
       [] OTHER                        -> 0

Alloc(rf, hp, x, obj) == [ref |-> [rf EXCEPT ![x] = Len(hp) + 1], heap |-> Append(hp, obj)]

\* reference semantics: [ref, heap] after operation o
HeapPost(rf, hp, o) ==
  CASE o.op = "add_value" -> [ref |-> rf, heap |-> [hp EXCEPT ![rf[o.reg]].rep = RepAddValue(@, o.v)]]
    [] o.op = "add_range" -> [ref |-> rf, heap |-> [hp EXCEPT ![rf[o.reg]].rep = RepAddRange(@, o.lo, o.hi)]]
    [] o.op = "union"     -> IF Reused(rf, hp, o) # 0
                             THEN [ref |-> [rf EXCEPT ![o.reg] = Reused(rf, hp, o)], heap |-> hp]
                             ELSE Alloc(rf, hp, o.reg, Obj(RepUnion(RepAt(rf, hp, o.l), RepAt(rf, hp, o.r)), "union", o.l, o.r))
    [] o.op = "any"       -> Alloc(rf, hp, o.reg, Obj(AnyRep, "any", NoReg, NoReg))
    [] o.op = "new"       -> Alloc(rf, hp, o.reg, Obj(RepOfItems(EmptyRep, o.items), "new", NoReg, NoReg))

\* value semantics: the set the property assigns to each variable after operation o
DenPost(d, o) ==
  CASE o.op = "add_value" -> [d EXCEPT ![o.reg] = DenAddValue(@, o.v)]
    [] o.op = "add_range" -> [d EXCEPT ![o.reg] = DenAddRange(@, o.lo, o.hi)]
    [] o.op = "union"     -> [d EXCEPT ![o.reg] = DenUnion(d[o.l], d[o.r])]
    [] o.op = "any"       -> [d EXCEPT ![o.reg] = AnyDen]
    [] o.op = "new"       -> [d EXCEPT ![o.reg] = DenOfItems(EmptyDen, o.items)]

(* what the driver observes on the real objects after a step, as predicted by the spec *)
Obs(rf, hp, d) ==
  [ma |-> DenIn(d["A"], Wide), mb |-> DenIn(d["B"], Wide),
   dj |-> DenDisjoint(d["A"], d["B"]),
   anya |-> d["A"].any, anyb |-> d["B"].any,
   same |-> rf["A"] = rf["B"],
   va |-> RepAt(rf, hp, "A").vals, ra |-> RepAt(rf, hp, "A").rngs,
   vb |-> RepAt(rf, hp, "B").vals, rb |-> RepAt(rf, hp, "B").rngs]

Init == /\ ref = [x \in Regs |-> IF x = "A" THEN 1 ELSE 2]
        /\ heap = <<Obj(EmptyRep, "new", NoReg, NoReg), Obj(EmptyRep, "new", NoReg, NoReg)>>
        /\ den = [x \in Regs |-> EmptyDen]
        /\ obs = Obs(ref, heap, den)
        /\ pre = [ref |-> ref, heap |-> heap] /\ inp = [op |-> "init"] /\ hist = <<>>

Do(o) == /\ Len(hist) < MaxLen
         /\ Legal(o)
         /\ LET p == HeapPost(ref, heap, o) IN ref' = p.ref /\ heap' = p.heap
         /\ den' = DenPost(den, o)
         /\ pre' = [ref |-> ref, heap |-> heap] /\ inp' = o
         /\ obs' = Obs(ref', heap', den')
         /\ hist' = Append(hist, o)

AddValue == \E o \in Ops : o.op = "add_value" /\ Do(o)
AddRange == \E o \in Ops : o.op = "add_range" /\ Do(o)
Union    == \E o \in Ops : o.op = "union" /\ Do(o)
MakeAny  == \E o \in Ops : o.op = "any" /\ Do(o)
New      == \E o \in Ops : o.op = "new" /\ Do(o)
Next == AddValue \/ AddRange \/ Union \/ MakeAny \/ New

Spec == Init /\ [][Next]_vars

(* --- C17, first sentence ---------------------------------------------------------------- *)
\* after ANY sequence of additions and unions, the set a variable names contains exactly the
\* union of the values and inclusive ranges listed for it (and nothing listed for another set)
ContainsExactlyUnion == \A x \in Regs : /\ RepAt(ref, heap, x).any = den[x].any
                                         /\ DenoteIn(RepAt(ref, heap, x), Wide) = DenIn(den[x], Wide)
\* ... which needs: no operation of the library makes two variables name the same object,
NoSharing == \A x, y \in Regs : x # y => ref[x] # ref[y]
\* and an operation changes no object but the one it is applied to (operands of a union included)
OthersUnchanged == inp.op # "init" =>
  LET tgt == IF inp.op \in {"add_value", "add_range"} THEN pre.ref[inp.reg] ELSE 0 IN
  /\ \A i \in 1..Len(pre.heap) : i # tgt => heap[i] = pre.heap[i]
  /\ \A x \in Regs : x # inp.reg => /\ ref[x] = pre.ref[x]
                                    /\ DenoteIn(RepAt(ref, heap, x), Wide) = DenoteIn(RepAt(pre.ref, pre.heap, x), Wide)
\* the end-point test used by is_disjoint decides emptiness of the intersection, both ways round
DisjointCorrect == /\ RepDisjoint(RepAt(ref, heap, "A"), RepAt(ref, heap, "B")) = DenDisjoint(den["A"], den["B"])
                   /\ RepDisjoint(RepAt(ref, heap, "B"), RepAt(ref, heap, "A")) = DenDisjoint(den["A"], den["B"])
Canonical == \A x \in Regs : RepCanonical(RepAt(ref, heap, x))

\* VIEW: object ids are abstracted to "what each variable names (contents and origin) and which
\* variables name the same object"; garbage is invisible
Shape(rf, hp) == <<[x \in Regs |-> hp[rf[x]]], {<<x, y>> \in Regs \X Regs : rf[x] = rf[y]}>>
View == <<Shape(pre.ref, pre.heap), inp, Shape(ref, heap), den>>
=============================================================================
