-------------------------- MODULE ToolOutcomeTrace --------------------------
(* Outcome machines of the three consumers of arbitrary byte strings, used to validate      *)
(* traces recorded from the real code (one event per run of a tool on one byte string):     *)
(*   "validate" : vc2_conformance.decoder.parse_stream                       (C02)          *)
(*   "cli"      : vc2-bitstream-validator command (vc2_bitstream_validator.main)  (C25)      *)
(*   "view"     : vc2-bitstream-viewer command (vc2_bitstream_viewer.main)        (C26)      *)
(* Each tool is a machine  Start -> Reading -> {its terminal outcomes}; the properties say   *)
(* which terminal outcomes exist and what must be observable in each.  A recorded run whose  *)
(* outcome is not a terminal state of the machine (a crash, the internal-error status) or    *)
(* whose observations contradict the outcome has no matching action: the fold records the    *)
(* failing clause and continues with the next run (total verdicts).                          *)
EXTENDS Integers, Sequences, FiniteSets, Json, IOUtils, TLC, TLCExt

Log == ndJsonDeserialize(IOEnv.TRACE_FILE)

VARIABLES l, bad
tvars == <<l, bad>>

Range(s) == {s[i] : i \in 1..Len(s)}

(* ---- library validator (C02) ------------------------------------------------------------ *)
ValidatorTerminal == {"accept", "reject"}            \* there is no "crash" state
NotJudged == {"oos", "timeout"}                      \* outside the stated resource bounds
ValidateClause(e) ==
  IF e.outcome \in NotJudged THEN "ok"
  ELSE IF e.outcome \notin ValidatorTerminal THEN "VerdictIsAcceptOrConformanceError"
  ELSE IF e.outcome = "reject" /\ e.explain # "ok" THEN "ErrorCanBeExplained"
  ELSE IF e.outcome = "reject" /\ e.offset # "ok" THEN "ErrorCanBeLocated"
  ELSE IF e.outcome = "reject" /\ e.hint # "ok" THEN "ErrorGivesViewerHint"
  ELSE "ok"

(* ---- validator command (C25) ------------------------------------------------------------ *)
(* exit 0 <=> library verdict accept, then file pair i holds the i-th decoded picture, i from 0 *)
(* exit 2 <=> library verdict reject, then stdout locates and explains the error               *)
(* exit 3 (internal error) is not an outcome                                                   *)
CliClause(e) ==
  IF e.lib \in NotJudged THEN "ok"
  ELSE IF e.exit = 3 \/ e.exit = -1 THEN "NeverInternalError"
  \* streams conformant by construction (e.known): exit 0 whatever the library validator says of them
  ELSE IF e.known = "conformant" /\ e.exit # 0 THEN "ConformantExitsZero"
  ELSE IF e.lib = "accept" /\ e.exit # 0 THEN "ConformantExitsZero"
  ELSE IF e.lib = "reject" /\ e.exit # 2 THEN "NonConformantExitsTwo"
  ELSE IF e.lib = "reject" /\ ~(e.marker_offset /\ e.marker_explain /\ e.marker_hint) THEN "RejectionIsLocatedAndExplained"
  ELSE IF e.lib = "reject" /\ e.offset_lib >= 0 /\ e.offset_cli # e.offset_lib THEN "RejectionLocatedAtTheOffendingOffset"
  ELSE IF e.lib = "accept" /\ e.files # [i \in 1..e.npics_lib |-> i - 1] THEN "OnePairPerPictureNumberedFromZero"
  ELSE IF e.lib = "accept" /\ \E i \in 1..Len(e.pairs_equal) : ~e.pairs_equal[i] THEN "FileContentsEqualDecoderOutput"
  ELSE "ok"
\* spec-only prediction (logged): pictures decoded before a rejection are written too
CliExtra(e) ==
  IF e.lib = "reject" /\ e.exit = 2 /\ (e.files # [i \in 1..e.npics_lib |-> i - 1] \/ \E i \in 1..Len(e.pairs_equal) : ~e.pairs_equal[i])
  THEN "PicturesBeforeRejectionWritten" ELSE "ok"

(* ---- bitstream viewer (C26) -------------------------------------------------------------- *)
ViewerTerminal == {0, 2, 3, 4}     \* complete / bad parse_info prefix / end of file / parse failure
ViewClause(e) ==
  IF e.oos THEN "ok"
  ELSE IF e.exit = 255 \/ e.exit = -1 THEN "NeverInternalError"      \* -1: an exception escaped main()
  ELSE "ok"
ViewExtra(e) == IF ~e.oos /\ e.exit \notin ViewerTerminal /\ e.exit # 255 /\ e.exit # -1 THEN "UnknownExitStatus" ELSE "ok"

Clause(e) == CASE e.ev = "validate" -> ValidateClause(e)
               [] e.ev = "cli" -> CliClause(e)
               [] e.ev = "view" -> ViewClause(e)
Extra(e) == CASE e.ev = "cli" -> CliExtra(e) [] e.ev = "view" -> ViewExtra(e) [] OTHER -> "ok"

TraceInit == l = 1 /\ bad = <<>>
TraceNext ==
  /\ l <= Len(Log)
  /\ l' = l + 1
  /\ LET e == Log[l] c == Clause(e) x == Extra(e) IN
     bad' = IF c # "ok" THEN Append(bad, [tid |-> e.tid, line |-> l, clause |-> c, alarm |-> TRUE])
            ELSE IF x # "ok" THEN Append(bad, [tid |-> e.tid, line |-> l, clause |-> x, alarm |-> FALSE])
            ELSE bad
TraceSpec == TraceInit /\ [][TraceNext]_tvars
Report == l = Len(Log) + 1 => PrintT(<<"BAD", ToJson(bad)>>)
AllConsumed == TLCGet("stats").diameter - 1 = Len(Log)
=============================================================================
