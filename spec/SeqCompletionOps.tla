-------------------------- MODULE SeqCompletionOps --------------------------
(* Pure operators for sequence completion (symbol_re.make_matching_sequence), C19.         *)
(*                                                                                         *)
(* A case c = [req, pats, limit]: required symbols in order, patterns (ASTs of             *)
(* SymbolRegexOps) that must all match, and the permitted number of consecutive            *)
(* insertions (depth_limit).                                                               *)
(*  - declarative part: ValidCompletion(w, c), DeclShortest(c, L)                          *)
(*  - operational part: the breadth-first search over product states                       *)
(*      [i required symbols taken, ds residual pattern per matcher, run insertions so far] *)
(*    with the two moves of the code, TakeRequired and Insert(x); Shortest(c) is the       *)
(*    depth at which it first accepts, -1 if it never does.                                *)
(*  - DeviationGreedyTake: the same search where insertions are tried only when the next   *)
(*    required symbol can *not* be taken (the `continue` after a successful match in the   *)
(*    code, defect D6); used only to attribute violating cases.                            *)
(* A wildcard inserted by the code ("." in its result) stands for "any symbol": it is      *)
(* treated as a symbol that only wildcards match.                                          *)
EXTENDS SymbolRegexOps

Impossible == -1

Sigma(c) == UNION {SymsOf(c.pats[k]) : k \in 1..Len(c.pats)} \cup {WildSym}

(* ---- declarative ---------------------------------------------------------------------- *)
(* w is req with insertions only, no more than `limit` of them in a row                    *)
RECURSIVE Emb(_, _, _, _, _, _)
Emb(w, req, limit, i, j, run) ==
  IF i > Len(w) THEN j > Len(req)
  ELSE \/ (j <= Len(req) /\ w[i] = req[j] /\ Emb(w, req, limit, i + 1, j + 1, 0))
       \/ (run < limit /\ Emb(w, req, limit, i + 1, j, run + 1))
Embeds(w, req, limit) == Emb(w, req, limit, 1, 1, 0)

MatchesAll(w, pats) == \A k \in 1..Len(pats) : Complete(pats[k], w)
FirstUnmatched(w, pats) == IF MatchesAll(w, pats) THEN 0
                           ELSE CHOOSE k \in 1..Len(pats) : ~Complete(pats[k], w) /\ \A m \in 1..(k - 1) : Complete(pats[m], w)

ValidCompletion(w, c) == Embeds(w, c.req, c.limit) /\ MatchesAll(w, c.pats)

(* length of a shortest valid completion among the sequences of length <= L over S, else -1 *)
DeclShortest(c, L, S) ==
  LET lens == {n \in 0..L : \E w \in [1..n -> S] : ValidCompletion(w, c)} IN
  IF lens = {} THEN Impossible ELSE CHOOSE n \in lens : \A m \in lens : n <= m

(* ---- operational: product automaton and breadth-first search -------------------------- *)
RECURSIVE DerivAll(_, _)
DerivAll(ds, x) == IF ds = <<>> THEN <<>> ELSE <<Deriv(Head(ds), x)>> \o DerivAll(Tail(ds), x)
AllNonEmpty(ds) == \A k \in 1..Len(ds) : NonEmpty(ds[k])
AllComplete(ds) == \A k \in 1..Len(ds) : CompleteD(ds[k])

Start(c) == [i |-> 0, ds |-> c.pats, run |-> 0]
Accepting(st, c) == st.i = Len(c.req) /\ AllComplete(st.ds)

TakeEnabled(st, c) == st.i < Len(c.req) /\ AllNonEmpty(DerivAll(st.ds, c.req[st.i + 1]))
Take(st, c) == [i |-> st.i + 1, ds |-> DerivAll(st.ds, c.req[st.i + 1]), run |-> 0]   \* the run restarts

InsertEnabled(st, c, x) == st.run < c.limit /\ AllNonEmpty(DerivAll(st.ds, x))
Insert(st, x) == [i |-> st.i, ds |-> DerivAll(st.ds, x), run |-> st.run + 1]

Succs(st, c, greedy) ==
  (IF TakeEnabled(st, c) THEN {Take(st, c)} ELSE {})
  \cup (IF greedy /\ TakeEnabled(st, c) THEN {}
        ELSE {Insert(st, x) : x \in {y \in Sigma(c) : InsertEnabled(st, c, y)}})

RECURSIVE Bfs(_, _, _, _, _)
Bfs(front, seen, depth, c, greedy) ==
  IF \E st \in front : Accepting(st, c) THEN depth
  ELSE IF front = {} THEN Impossible
  ELSE LET nxt == (UNION {Succs(st, c, greedy) : st \in front}) \ seen IN
       Bfs(nxt, seen \cup nxt, depth + 1, c, greedy)

Shortest(c)       == Bfs({Start(c)}, {Start(c)}, 0, c, FALSE)
GreedyShortest(c) == Bfs({Start(c)}, {Start(c)}, 0, c, TRUE)     \* DeviationGreedyTake
=============================================================================
