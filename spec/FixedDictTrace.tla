--------------------------- MODULE FixedDictTrace ---------------------------
(* Validation of traces recorded from real fixeddict objects (random long histories on     *)
(* every library type) against the FixedDictOps design.  One log line per event; many      *)
(* independent executions (tid) per file; verdicts are total: every event is judged, the   *)
(* first failing clause is named, and the fold resynchronises on the recorded state.       *)
EXTENDS FixedDictOps, Json, IOUtils, TLC, TLCExt

Log == ndJsonDeserialize(IOEnv.TRACE_FILE)

VARIABLES l,      \* next log line
          decl,   \* declared keys of the object of the current execution
          m,      \* spec's view of the mapping (resynchronised on the recorded state)
          bad     \* verdict records

tvars == <<l, decl, m, bad>>

RecordedMap(e) == [k \in Range(e.keys) |-> e.vals[CHOOSE i \in 1..Len(e.keys) : e.keys[i] = k]]

(* property clauses (alarm) then spec-only predictions (logged, never an alarm: rule R1) *)
Clause(e) ==
  LET und == NamesUndeclared(e.o, decl)
      p   == PostP(m, decl, e.o) IN
  IF ~(Range(e.keys) \subseteq decl)             THEN [c |-> "OnlyDeclared", alarm |-> TRUE]
  ELSE IF und /\ e.exc = "none"                  THEN [c |-> "UndeclaredNotRejected", alarm |-> TRUE]
  ELSE IF und /\ e.exc # "keyerror"              THEN [c |-> "RejectedWithWrongError", alarm |-> TRUE]
  ELSE IF ~und /\ e.exc # "none"                 THEN [c |-> "DeclaredRejected", alarm |-> TRUE]
  ELSE IF e.typ # "fixed"                        THEN [c |-> "SameType", alarm |-> TRUE]
  ELSE IF e.o.op \in SelfOps /\ ~e.eq            THEN [c |-> "CopyPickleIdentity", alarm |-> TRUE]
  ELSE IF RecordedMap(e) # p.d                   THEN [c |-> "SpecState", alarm |-> FALSE]
  ELSE [c |-> "ok", alarm |-> FALSE]

TraceInit == l = 1 /\ decl = {} /\ m = <<>> /\ bad = <<>>

TraceNext ==
  /\ l <= Len(Log)
  /\ l' = l + 1
  /\ LET e == Log[l] IN
     IF e.ev = "begin"
     THEN decl' = Range(e.decl) /\ m' = <<>> /\ UNCHANGED bad
     ELSE /\ UNCHANGED decl
          /\ m' = RecordedMap(e)
          /\ LET c == Clause(e) IN
             bad' = IF c.c = "ok" THEN bad
                    ELSE Append(bad, [tid |-> e.tid, line |-> l, clause |-> c.c, alarm |-> c.alarm])

TraceSpec == TraceInit /\ [][TraceNext]_tvars

Report == l = Len(Log) + 1 => PrintT(<<"BAD", ToJson(bad)>>)
AllConsumed == TLCGet("stats").diameter - 1 = Len(Log)
=============================================================================
