--------------------------- MODULE TestCaseGenLemma ---------------------------
(* The lemma that carries the pair/triple results of TestCaseGen to any number of workers,  *)
(* checked by TLC on an abstract instance in which the PROGRAMS themselves are chosen by    *)
(* TLC: NW workers, each running any operation list of length <= MaxLen over an alphabet of *)
(* operations on one shared directory d, one shared file d/s, one private file d/a<w> and   *)
(* one private sub-directory d/e<w> (tolerant / strict / check-then-act directory creation, *)
(* private and shared writes, reads of the shared file).                                    *)
(*                                                                                         *)
(*   Hyp(prog)  ==  write sets pairwise disjoint from the other workers' read and write     *)
(*                  sets (files and directories), every worker succeeds when run alone      *)
(*                  (directory self-sufficiency), directories that several workers create   *)
(*                  are created tolerantly (makedirs exist_ok / tolerated mkdir), nothing   *)
(*                  is removed                                                             *)
(*   Lemma      ==  Hyp(prog) => in EVERY interleaving no operation fails, every worker     *)
(*                  observes what it observes alone, the final tree is the serial tree      *)
(* cfg TestCaseGenLemma.cfg checks Lemma; cfg TestCaseGenLemmaNeg.cfg checks the conclusion *)
(* WITHOUT the hypothesis and must produce a counterexample (the hypotheses are needed and  *)
(* the model can express the races).                                                       *)
EXTENDS TestCaseGenOps

CONSTANTS NW, MaxLen

VARIABLES prog, fs, loc, ser, alo
vars == <<prog, fs, loc, ser, alo>>

W == 1..NW
D == <<"d">>
S == <<"d", "s">>
Priv(w) == <<"d", CASE w = 1 -> "a1" [] w = 2 -> "a2" [] OTHER -> "a3">>
Sub(w)  == <<"d", CASE w = 1 -> "e1" [] w = 2 -> "e2" [] OTHER -> "e3">>
Op(k, p, x) == [k |-> k, p |-> p, q |-> <<>>, x |-> x]

Alphabet(w) == { Op("makedirs", D, 1), Op("makedirs", D, 0), Op("guardmk", D, 0), Op("mkdir", D, 1),
                 Op("makedirs", Sub(w), 1),
                 Op("put", Priv(w), 0), Op("put", S, 0), Op("openr", S, 0), Op("stat", S, 0) }

RECURSIVE SeqsUpTo(_, _)
SeqsUpTo(A, n) == IF n = 0 THEN {<<>>}
                  ELSE LET T == SeqsUpTo(A, n - 1) IN T \cup {Append(t, a) : t \in {u \in T : Len(u) = n - 1}, a \in A}

Order == [i \in W |-> i]   \* the serial order 1, 2, .., NW as a sequence

Init == /\ prog \in [W -> UNION {SeqsUpTo(Alphabet(w), MaxLen) : w \in W}]
        /\ \A w \in W : prog[w] \in SeqsUpTo(Alphabet(w), MaxLen)
        /\ fs = EmptyFs
        /\ loc = [w \in W |-> L0]
        /\ ser = RunSeq(EmptyFs, Order, prog, <<>>)
        /\ alo = [w \in W |-> RunW(EmptyFs, L0, w, prog[w]).l]

Step(w) == /\ Running(loc[w], prog[w])
           /\ LET r == StepOp(fs, loc[w], w, prog[w][loc[w].pc]) IN
              fs' = r.fs /\ loc' = [loc EXCEPT ![w] = r.l]
           /\ UNCHANGED <<prog, ser, alo>>

Next == \E w \in W : Step(w)
Spec == Init /\ [][Next]_vars

(* --- hypotheses (static, on the programs) ---------------------------------------------- *)
MadeBy(ops) == DirsMadeBy(ops) \cup UNION {Ancestors(p) : p \in DirsMadeBy(ops)}
Tolerant(o) == o.k \in {"makedirs", "mkdir"} /\ o.x = 1
Hyp(pr, ws) ==
  /\ \A w \in ws, v \in ws : w # v =>
        /\ WritesOf(pr[w]) \cap (WritesOf(pr[v]) \cup ReadsOf(pr[v]) \cup MadeBy(pr[v])) = {}
        /\ ReadsOf(pr[w]) \cap MadeBy(pr[v]) = {}
  /\ \A w \in ws : alo[w].fail = ""
  /\ \A w \in ws : \A i \in 1..Len(pr[w]) :
        LET o == pr[w][i] IN
        (o.k \in {"makedirs", "mkdir", "guardmk"} /\ \E v \in ws \ {w} : o.p \in MadeBy(pr[v])) => Tolerant(o)
  /\ \A w \in ws : RemovesOf(pr[w]) = {}

AllDone == \A w \in W : Done(loc[w], prog[w])
Conclusion == /\ \A w \in W : loc[w].fail = ""
              /\ \A w \in W : IsPrefix(loc[w].obs, alo[w].obs)
              /\ AllDone => fs = ser.fs
Lemma == Hyp(prog, W) => Conclusion
\* non-vacuity: some explored program family satisfies the hypotheses and really shares d
HypSometimes == ~(Hyp(prog, W) /\ AllDone /\ \A w \in W : Len(prog[w]) = MaxLen)
=============================================================================
