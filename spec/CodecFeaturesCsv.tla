-------------------------- MODULE CodecFeaturesCsv --------------------------
(* Mutation model for read_codec_features_csv (property C28).  A behaviour picks one of    *)
(* the sample codec-feature files (described abstractly by BaseFiles, which the driver     *)
(* extracts from the files: per column whether it is lossless, its transform depths, the   *)
(* length of its custom quantisation matrix, which cells are invalid as shipped) and       *)
(* applies up to MaxMut mutations: a cell replaced by a value of a given class, a row      *)
(* added / commented out / duplicated, a column blanked.  For the mutated file the spec    *)
(* predicts the documented outcome: "ok" (every column in its domain) or "invalid".        *)
(* Names: every column denotes a configuration with a name -- the explicit one or, for an  *)
(* unnamed column, one generated from the column's position.  The name row is mutated in   *)
(* one or two DIFFERENT columns (empty = unnamed, odd text, the neighbour's name, or an    *)
(* explicit name spelled like the generated name of column t, for every t, in both orders   *)
(* of the two columns); two non-blank columns denoting the same name make the file invalid  *)
(* (NamesDistinct), and an accepted file has one configuration per non-blank column.        *)
(* The prediction is a cross-check; the alarm of C28 (nothing but the invalid-features     *)
(* error, and returned values in domain) is evaluated by CodecFeaturesCsvTrace.tla on the  *)
(* recorded results.                                                                        *)
EXTENDS CodecFeaturesOps, CodecFeaturesTables, TLC

CONSTANTS MaxMut,       \* mutations per behaviour
          PairCols      \* columns (per file) on which a second mutation is explored

Big == 1000000          \* stands for an integer far beyond anything sensible (driver writes 10^30)

IntLike == IntFields \cup VpIntFields \cup {"picture_bytes"}
EnumLike == EnumFields \cup VpEnumFields
BoolLike == BoolFields \cup VpBoolFields

\* "auto_t": an explicit name spelled like the name generated for an unnamed column t
AutoNames == <<"auto_1", "auto_2", "auto_3", "auto_4", "auto_5", "auto_6">>
AutoTarget(k) == CHOOSE t \in 1..Len(AutoNames) : AutoNames[t] = k
NameClasses(n) == {"empty", "odd", "ws", "dupname"} \cup {AutoNames[t] : t \in 1..n}
\* name classes that may be combined with a name mutation in another column
CrossNameClasses(n) == NameClasses(n) \ {"dupname"}

ClassesOf(f) ==
  IF f = "name" THEN NameClasses(6)
  ELSE IF f = "quantization_matrix" THEN {"empty", "default", "malformed", "qm_ok", "qm_short", "qm_long", "qm_nonint"}
  ELSE IF f \in EnumLike THEN {"empty", "default", "malformed", "negative", "big", "int_ok", "int_oob", "name_ok", "name_bad", "ws"}
  ELSE IF f \in BoolLike THEN {"empty", "default", "malformed", "negative", "big", "true", "false"}
  ELSE {"empty", "default", "malformed", "negative", "below_min", "at_min", "big", "ws", "nonascii"}

\* fields whose validity depends on another field: explored in pairs
Interacting == {"lossless", "picture_bytes", "dwt_depth", "dwt_depth_ho", "quantization_matrix", "name", "profile"}

VARIABLES file,    \* index into BaseFiles
          cells,   \* [column -> [field -> class]]  ("keep" = as shipped)
          struct,  \* set of structural mutations applied
          obs,     \* predicted outcome
          inp, hist

vars == <<file, cells, struct, obs, inp, hist>>

B == BaseFiles[file]
Cols == 1..B.ncols

(* ---- meaning of the classes ---- *)
BaseValid(c, f) == <<c, f>> \notin B.bad
Lossless(c) == LET k == cells[c]["lossless"] IN
               IF k = "true" THEN TRUE ELSE IF k = "false" THEN FALSE ELSE B.lossless[c]
DepthVal(c, f) == LET k == cells[c][f]
                      base == IF f = "dwt_depth" THEN B.depths[c][1] ELSE B.depths[c][2] IN
                  IF k = "at_min" THEN 0 ELSE IF k = "big" THEN Big ELSE base

SimpleValid(c, f) ==
  LET k == cells[c][f] IN
  CASE k \in {"keep", "ws"} -> BaseValid(c, f)
    [] k = "default"  -> f \in Defaultable
    [] k \in {"at_min", "int_ok", "name_ok", "true", "false", "nonascii"} -> TRUE
    [] k = "big"      -> f \in IntLike
    [] OTHER          -> FALSE      \* empty, malformed, negative, below_min, int_oob, name_bad

PictureBytesValid(c) ==
  LET k == cells[c]["picture_bytes"]
      given == IF k = "keep" \/ k = "ws" THEN ~B.lossless[c] ELSE k # "empty"
  IN IF Lossless(c) THEN ~given
     ELSE given /\ SimpleValid(c, "picture_bytes")

QmValid(c) ==
  LET k == cells[c]["quantization_matrix"]
      want == QmLength(DepthVal(c, "dwt_depth"), DepthVal(c, "dwt_depth_ho")) IN
  CASE k = "default" -> TRUE
    [] k = "keep"    -> B.qmlen[c] < 0 \/ B.qmlen[c] = want
    [] k = "qm_ok"   -> TRUE
    [] OTHER         -> FALSE

Blank(c) == <<"blank", c>> \in struct
\* "dupname" copies the name of the next column; an empty name cell gets a generated name
OtherCol(c) == (c % B.ncols) + 1
\* the name a column denotes: <<"base", c>> the name shipped in column c (the shipped names are distinct
\* and none is spelled like a generated one: assumption stated by the driver), <<"auto", t>> the name
\* generated for position t, <<"odd", c>> an odd text (made distinct per column by the driver)
NameVal(c) == LET k == cells[c]["name"] IN
  IF k \in {"keep", "ws"} THEN <<"base", c>>
  ELSE IF k = "empty"   THEN <<"auto", c>>
  ELSE IF k = "odd"     THEN <<"odd", c>>
  ELSE IF k = "dupname" THEN <<"base", OtherCol(c)>>
  ELSE <<"auto", AutoTarget(k)>>
\* a deleted / commented-out name row leaves every column unnamed
NameOf(c) == IF <<"comment", "name">> \in struct \/ <<"delete", "name">> \in struct THEN <<"auto", c>> ELSE NameVal(c)
NamesDistinct == \A c1, c2 \in Cols : (c1 < c2 /\ ~Blank(c1) /\ ~Blank(c2)) => NameOf(c1) # NameOf(c2)
Configurations == Cardinality({c \in Cols : ~Blank(c)})
ColValid(c) ==
  \/ Blank(c)
  \/ /\ \A f \in AllFields \ {"name", "picture_bytes", "quantization_matrix"} : SimpleValid(c, f)
     /\ PictureBytesValid(c) /\ QmValid(c)

\* a row commented out or deleted is missing in every column
RowGone(f) == <<"comment", f>> \in struct \/ <<"delete", f>> \in struct
GoneOk(f, c) == f = "name" \/ (f = "picture_bytes" /\ Lossless(c))
Outcome ==
  IF <<"extra">> \in struct THEN "invalid"
  ELSE IF \E f \in AllFields : RowGone(f) /\ \E c \in Cols : ~Blank(c) /\ ~GoneOk(f, c) THEN "invalid"
  ELSE IF ~NamesDistinct THEN "invalid"
  ELSE IF \A c \in Cols : ColValid(c) THEN "ok" ELSE "invalid"

(* ---- behaviours ---- *)
Init == /\ file \in 1..Len(BaseFiles)
        /\ cells = [c \in 1..BaseFiles[file].ncols |-> [f \in AllFields |-> "keep"]]
        /\ struct = {} /\ obs = "none" /\ inp = [m |-> "init"] /\ hist = <<>>

\* the numeric argument the driver needs to write the cell
ArgOf(c, f, k) ==
  CASE k = "at_min"    -> MinOf(f)
    [] k = "below_min" -> MinOf(f) - 1
    [] k = "qm_ok"     -> QmLength(DepthVal(c, "dwt_depth"), DepthVal(c, "dwt_depth_ho"))
    [] k = "qm_short"  -> QmLength(DepthVal(c, "dwt_depth"), DepthVal(c, "dwt_depth_ho")) - 1
    [] k = "qm_long"   -> QmLength(DepthVal(c, "dwt_depth"), DepthVal(c, "dwt_depth_ho")) + 1
    [] OTHER -> 0

MayMutate(c, f) == \/ Len(hist) = 0
                   \/ (c \in PairCols /\ f \in Interacting /\ inp.m = "cell" /\ inp.c = c /\ inp.f \in Interacting)
                   \* the name row in two different columns (any two, either one first)
                   \/ (f = "name" /\ inp.m = "cell" /\ inp.f = "name" /\ inp.c # c /\ inp.k \in CrossNameClasses(B.ncols))

MutateCell == \E c \in Cols, f \in AllFields : \E k \in ClassesOf(f) :
  /\ Len(hist) < MaxMut /\ MayMutate(c, f)
  /\ ~(k \in {"qm_ok", "qm_short", "qm_long"} /\ Big \in {DepthVal(c, "dwt_depth"), DepthVal(c, "dwt_depth_ho")})
  /\ ~(k = "dupname" /\ B.ncols < 2)
  /\ (f = "name") => k \in NameClasses(B.ncols)
  /\ (f = "name" /\ Len(hist) > 0 /\ inp.f = "name" /\ inp.c # c) => k \in CrossNameClasses(B.ncols)
  /\ cells[c][f] = "keep"
  \* a matrix written for the current depths is not followed by a change of the depths (the other order is explored)
  /\ ~(f \in {"dwt_depth", "dwt_depth_ho"} /\ cells[c]["quantization_matrix"] \in {"qm_ok", "qm_short", "qm_long"})
  /\ cells' = [cells EXCEPT ![c][f] = k]
  /\ UNCHANGED <<file, struct>>
  /\ inp' = [m |-> "cell", c |-> c, f |-> f, k |-> k, arg |-> ArgOf(c, f, k)]
  /\ hist' = Append(hist, inp') /\ obs' = Outcome'

MutateStruct == \E s \in {<<"extra">>} \cup {<<"blank", c>> : c \in Cols}
                         \cup {<<"comment", f>> : f \in AllFields} \cup {<<"delete", f>> : f \in AllFields} :
  /\ Len(hist) < MaxMut /\ (Len(hist) = 0 \/ (inp.m = "cell" /\ inp.c \in PairCols /\ inp.f \in Interacting /\ s[1] \in {"blank", "extra"}))
  /\ s \notin struct
  /\ struct' = struct \cup {s}
  /\ UNCHANGED <<file, cells>>
  /\ inp' = [m |-> "struct", s |-> s]
  /\ hist' = Append(hist, inp') /\ obs' = Outcome'

Next == MutateCell \/ MutateStruct
Spec == Init /\ [][Next]_vars

(* ---- sanity of the model (checked by TLC) ---- *)
\* a file whose every column is blank or valid and that has no structural damage is predicted ok
UnmutatedOutcome == (hist = <<>>) => (Outcome = (IF B.bad = {} THEN "ok" ELSE "invalid"))
\* lossless columns never carry picture_bytes in an accepted file
LosslessExcludesPictureBytes == obs = "ok" =>
  \A c \in Cols : (~Blank(c) /\ Lossless(c)) => cells[c]["picture_bytes"] \in {"empty", "keep", "ws"}
\* an accepted file has no out-of-domain class anywhere in a non-blank column
OkMeansInDomain == obs = "ok" =>
  \A c \in Cols : ~Blank(c) => \A f \in AllFields :
     cells[c][f] \notin {"malformed", "negative", "below_min", "int_oob", "name_bad", "qm_short", "qm_long", "qm_nonint"}

\* an accepted file has pairwise distinct names, i.e. one configuration per non-blank column
AcceptedMeansDistinctNames == obs = "ok" => NamesDistinct
\* an explicit name spelled like the generated name of an unnamed non-blank column is never accepted
AutoCollisionRejected == obs = "ok" =>
  \A c, t \in Cols : (c # t /\ ~Blank(c) /\ ~Blank(t) /\ cells[t]["name"] = "empty") => cells[c]["name"] # AutoNames[t]

View == <<file, cells, struct, obs, inp>>
=============================================================================
