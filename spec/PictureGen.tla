------------------------------ MODULE PictureGen ------------------------------
(* C22 -- the space of regular video formats for the picture generators, as a TLC choice    *)
(* machine: base video format x size x colour subsampling x scan x coding mode x signal      *)
(* range x primaries x matrix x transfer function.  Every dimension has a default and at     *)
(* most MaxDev dimensions deviate from it, so with MaxDev = 2 every PAIR of values of two    *)
(* dimensions occurs together (pairwise covering) and every value of every dimension occurs. *)
(* A completed choice is one (video parameters, picture coding mode) pair for which the      *)
(* driver runs every generator of picture_generators.py.                                     *)
EXTENDS PictureGenOps

CONSTANTS MaxDev

VARIABLES stage, f, out
vars == <<stage, f, out>>

Dims == <<"base", "size", "cd", "ss", "pcm", "sr", "cp", "cm", "tf">>
Done == Len(Dims) + 1

BaseChoices == <<14, 7, 15, 0, 10>>  \* hd1080p_50 (default), sd480i_60 (bottom field first), dc2k, custom_format,
                                     \* sd_pro486 (the one base format whose height is not a multiple of four)
(* sizes: the first ten are multiples of four (or tiny); the rest cover every residue of the height and of *)
(* the width modulo 4 (and odd values), where floor and ceiling roundings of a partition into bands, fields  *)
(* or subsampled samples differ: 6, 10, 22, 486 = 2 (mod 4); 5 = 1; 7, 3 = 3; 486 lines is sd_pro486 at a    *)
(* reduced width.  Irregular combinations (odd sizes with subsampling / fields) are dropped by the last     *)
(* action, so every size occurs with every subsampling / scan / coding mode it is regular for.             *)
Sizes == <<<<16, 8>>, <<4, 4>>, <<8, 4>>, <<12, 8>>, <<16, 32>>, <<64, 64>>, <<2, 2>>, <<36, 20>>, <<2, 4>>, <<64, 2>>,
           <<6, 6>>, <<10, 10>>, <<7, 5>>, <<5, 7>>, <<3, 3>>, <<14, 22>>, <<18, 486>>>>
CustomRanges == <<<<0, 256, 128, 256>>,      \* excursion = 2^k: needs k+1 bits
                  <<200, 255, 300, 255>>,    \* offsets that push nominal white beyond the bit depth
                  <<0, 1, 0, 1>>,            \* one-bit components
                  <<0, 1023, 512, 255>>,     \* different depths for luma and colour difference
                  <<64, 876, 512, 1>>>>
NumSR == Len(SignalRanges)

NCodes(d) ==
  CASE d = "base" -> Len(BaseChoices) - 1
    [] d = "size" -> Len(Sizes) - 1
    [] d = "cd"   -> 3            \* 1..3 = index 0..2 (0 = as the base format)
    [] d = "ss"   -> 2
    [] d = "pcm"  -> 1
    [] d = "sr"   -> NumSR + Len(CustomRanges)
    [] d = "cp"   -> 5
    [] d = "cm"   -> 5
    [] d = "tf"   -> 6

NDev(g) == Cardinality({j \in 1..Len(Dims) : g[Dims[j]] # 0})

VP(g) ==
  LET D  == Defaults(BaseChoices[g.base + 1])
      sz == Sizes[g.size + 1]
      sr == IF g.sr = 0 THEN <<D.luma_offset, D.luma_excursion, D.color_diff_offset, D.color_diff_excursion>>
            ELSE IF g.sr <= NumSR THEN SignalRanges[g.sr] ELSE CustomRanges[g.sr - NumSR]
  IN [D EXCEPT !.frame_width = sz[1], !.frame_height = sz[2],
               !.clean_width = sz[1], !.clean_height = sz[2], !.left_offset = 0, !.top_offset = 0,
               !.color_diff_format_index = IF g.cd = 0 THEN @ ELSE g.cd - 1,
               !.source_sampling = IF g.ss = 0 THEN @ ELSE g.ss - 1,
               !.luma_offset = sr[1], !.luma_excursion = sr[2],
               !.color_diff_offset = sr[3], !.color_diff_excursion = sr[4],
               !.color_primaries_index = IF g.cp = 0 THEN @ ELSE g.cp - 1,
               !.color_matrix_index = IF g.cm = 0 THEN @ ELSE g.cm - 1,
               !.transfer_function_index = IF g.tf = 0 THEN @ ELSE g.tf - 1]

Init == /\ stage = 1
        /\ f = [base |-> 0, size |-> 0, cd |-> 0, ss |-> 0, pcm |-> 0, sr |-> 0, cp |-> 0, cm |-> 0, tf |-> 0]
        /\ out = <<>>

Choose(d) == /\ stage < Done /\ Dims[stage] = d
             /\ \E k \in 0..NCodes(d) :
                  /\ f' = [f EXCEPT ![d] = k]
                  /\ NDev(f') <= MaxDev
                  \* a choice that changes nothing is the default counted twice
                  /\ k # 0 => VP(f') # VP(f) \/ d = "pcm"
             /\ stage' = stage + 1
             /\ IF stage + 1 = Done
                THEN /\ RegularFormat(VP(f'), f'.pcm)
                     /\ out' = [vp |-> VP(f'), pcm |-> f'.pcm, f |-> f', coded |-> Coded(VP(f'), f'.pcm)]
                ELSE UNCHANGED out

ChooseBase == Choose("base")
ChooseSize == Choose("size")
ChooseCd == Choose("cd")
ChooseSs == Choose("ss")
ChoosePcm == Choose("pcm")
ChooseSr == Choose("sr")
ChooseCp == Choose("cp")
ChooseCm == Choose("cm")
ChooseTf == Choose("tf")
Next == ChooseBase \/ ChooseSize \/ ChooseCd \/ ChooseSs \/ ChoosePcm \/ ChooseSr \/ ChooseCp \/ ChooseCm \/ ChooseTf
Spec == Init /\ [][Next]_vars

(* the model-level facts TLC checks about every regular format: the coded sizes tile the frame *)
(* exactly (no rounding) and the depths hold the nominal range                                  *)
CodedExact ==
  stage = Done =>
    LET c == out.coded vp == out.vp IN
    /\ c.yw = vp.frame_width /\ c.yh * (IF out.pcm = 1 THEN 2 ELSE 1) = vp.frame_height
    /\ c.cw * HSub(vp) = vp.frame_width
    /\ c.ch * VSub(vp) * (IF out.pcm = 1 THEN 2 ELSE 1) = vp.frame_height
    /\ c.yw >= 1 /\ c.yh >= 1 /\ c.cw >= 1 /\ c.ch >= 1
    /\ P2(c.yd) - 1 >= vp.luma_excursion /\ P2(c.cd) - 1 >= vp.color_diff_excursion
    /\ (c.yd = 1 \/ P2(c.yd - 1) - 1 < vp.luma_excursion)
=============================================================================
