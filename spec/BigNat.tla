------------------------------- MODULE BigNat -------------------------------
(* Natural numbers beyond TLC's 32-bit integers, as little-endian sequences of limbs in    *)
(* base 2^15 (the encoding produced by harness/trace.py:limbs).  <<0>> is zero.  Every     *)
(* intermediate value stays below 2^31: limb*limb < 2^30, plus a carry below 2^16.         *)
(* Signed numbers are records [s |-> -1 | 0 | 1, m |-> limbs of the magnitude].            *)
(* Used by the trace specifications of C11/C12/C13 so that rules over large recorded       *)
(* values (products, orderings, floors) are still evaluated by TLC and not by Python.      *)
EXTENDS Integers, Sequences

BBase == 32768

BWellFormed(a) == Len(a) >= 1 /\ \A i \in 1..Len(a) : a[i] \in 0..(BBase - 1)

BLimb(a, i) == IF i <= Len(a) THEN a[i] ELSE 0
BMaxI(x, y) == IF x >= y THEN x ELSE y

RECURSIVE BNorm(_)
BNorm(a) == IF Len(a) > 1 /\ a[Len(a)] = 0 THEN BNorm(SubSeq(a, 1, Len(a) - 1)) ELSE a

BZero == <<0>>
BIsZero(a) == \A i \in 1..Len(a) : a[i] = 0

RECURSIVE BFromNat(_)
BFromNat(n) == IF n < BBase THEN <<n>> ELSE <<n % BBase>> \o BFromNat(n \div BBase)

RECURSIVE BCmpAt(_, _, _)
BCmpAt(a, b, i) == IF i = 0 THEN 0
                   ELSE IF BLimb(a, i) < BLimb(b, i) THEN -1
                   ELSE IF BLimb(a, i) > BLimb(b, i) THEN 1
                   ELSE BCmpAt(a, b, i - 1)
BCmp(a, b) == BCmpAt(a, b, BMaxI(Len(a), Len(b)))
BLt(a, b) == BCmp(a, b) = -1
BLe(a, b) == BCmp(a, b) # 1
BEq(a, b) == BCmp(a, b) = 0

RECURSIVE BAddRec(_, _, _, _, _)
BAddRec(a, b, i, c, n) ==
  IF i > n THEN (IF c = 0 THEN <<>> ELSE <<c>>)
  ELSE LET s == BLimb(a, i) + BLimb(b, i) + c IN
       <<s % BBase>> \o BAddRec(a, b, i + 1, s \div BBase, n)
BAdd(a, b) == BNorm(BAddRec(a, b, 1, 0, BMaxI(Len(a), Len(b))))

(* a - b, requires a >= b *)
RECURSIVE BSubRec(_, _, _, _, _)
BSubRec(a, b, i, br, n) ==
  IF i > n THEN <<>>
  ELSE LET s == BLimb(a, i) - BLimb(b, i) - br IN
       IF s < 0 THEN <<s + BBase>> \o BSubRec(a, b, i + 1, 1, n)
       ELSE <<s>> \o BSubRec(a, b, i + 1, 0, n)
BSub(a, b) == BNorm(BSubRec(a, b, 1, 0, BMaxI(Len(a), Len(b))))

BAbsDiff(a, b) == IF BLe(b, a) THEN BSub(a, b) ELSE BSub(b, a)

(* a * k for 0 <= k < 2^15 *)
RECURSIVE BMulSmallRec(_, _, _, _)
BMulSmallRec(a, k, i, c) ==
  IF i > Len(a) THEN (IF c = 0 THEN <<>> ELSE BFromNat(c))
  ELSE LET s == a[i] * k + c IN
       <<s % BBase>> \o BMulSmallRec(a, k, i + 1, s \div BBase)
BMulSmall(a, k) == IF k = 0 THEN BZero ELSE BNorm(BMulSmallRec(a, k, 1, 0))

BShift(a, n) == [i \in 1..n |-> 0] \o a            \* a * BBase^n

RECURSIVE BMulRec(_, _, _)
BMulRec(a, b, i) == IF i > Len(b) THEN BZero
                    ELSE BAdd(BShift(BMulSmall(a, b[i]), i - 1), BMulRec(a, b, i + 1))
BMul(a, b) == BNorm(BMulRec(a, b, 1))

RECURSIVE BPow2(_)
BPow2(k) == IF k < 15 THEN <<2 ^ k>> ELSE <<0>> \o BPow2(k - 15)

(* q = floor(n / d)  <=>  q*d <= n < (q+1)*d   (d > 0): verification of a recorded quotient *)
BIsFloorDiv(q, n, d) == BLe(BMul(q, d), n) /\ BLt(n, BMul(BAdd(q, <<1>>), d))

RECURSIVE BSumRec(_, _)
BSumRec(s, i) == IF i > Len(s) THEN BZero ELSE BAdd(s[i], BSumRec(s, i + 1))
BSum(s) == BSumRec(s, 1)

(* value of a small limb sequence as a TLC integer (only when it fits) *)
BFits(a) == Len(BNorm(a)) <= 2
BToNat(a) == LET n == BNorm(a) IN IF Len(n) = 1 THEN n[1] ELSE n[1] + BBase * n[2]

(* --- signed ---------------------------------------------------------------------------- *)
SWellFormed(x) == /\ x.s \in {-1, 0, 1} /\ BWellFormed(x.m)
                  /\ (x.s = 0) = BIsZero(x.m)
SEq(x, y) == x.s = y.s /\ BEq(x.m, y.m)
(* |x - y| *)
SAbsDiff(x, y) == IF x.s = 0 THEN y.m
                  ELSE IF y.s = 0 THEN x.m
                  ELSE IF x.s = y.s THEN BAbsDiff(x.m, y.m)
                  ELSE BAdd(x.m, y.m)
(* x < y *)
SLt(x, y) == IF x.s # y.s THEN x.s < y.s
             ELSE IF x.s = 0 THEN FALSE
             ELSE IF x.s = 1 THEN BLt(x.m, y.m) ELSE BLt(y.m, x.m)
=============================================================================
