-------------------------- MODULE LevelTablesTrace --------------------------
(* Validation of (synthetic level table, encoder outcome, validator verdict) events recorded *)
(* from the real encoder and validator (C16).                                               *)
(*                                                                                          *)
(* One line per level definition (class full / geom: a synthetic column; class real: the    *)
(* real table of the tree under test, restr empty): the restrictions (key, allowed value    *)
(* set), the ordering pattern, the                                                          *)
(* outcome the model predicted (design), what the encoder did (unsat / produced / error),   *)
(* the validator's verdict under the same table with the offending key and value, and the   *)
(* level-constrained values the validator saw.                                              *)
(*                                                                                          *)
(* Alarm = exactly C16: produced and rejected.  A rejection on a key that the encoder       *)
(* design never consults (LevelTables!UncheckedKeys) and that the table restricts so as to  *)
(* exclude the value the stream carries is attributed to the NAMED DEVIATION (known         *)
(* finding); any other rejection is a fresh violation.                                      *)
EXTENDS Integers, Sequences, FiniteSets, Json, IOUtils, TLC, TLCExt

Log == ndJsonDeserialize(IOEnv.TRACE_FILE)

VARIABLES l, bad
tvars == <<l, bad>>

UncheckedKeys == {"wavelet_index_ho", "dwt_depth_ho", "minor_version",
                  "major_version", "slice_size_scaler", "quant_matrix_values", "qindex", "total_slice_bytes"}

(* value sets arrive as {"any": bool, "rs": [[lo, hi], ...]} *)
InJ(v, s) == s.any \/ \E i \in 1..Len(s.rs) : s.rs[i][1] <= v /\ v <= s.rs[i][2]

Restricts(e, key) == \E i \in 1..Len(e.restr) : e.restr[i].key = key
VSOf(e, key) == e.restr[CHOOSE i \in 1..Len(e.restr) : e.restr[i].key = key].vs

(* values the validator recorded that the table does not allow (it should have rejected) *)
Lenient(e) == \E i \in 1..Len(e.observed) :
                 /\ Restricts(e, e.observed[i].key)
                 /\ ~InJ(e.observed[i].value, VSOf(e, e.observed[i].key))

(* The named deviation explains a rejection on wavelet_index_ho / dwt_depth_ho only for a stream that CODES    *)
(* that value: the validator consults the level for them only inside "if asym_transform_index_flag" / "if      *)
(* asym_transform_flag" (12.4.4.1), and it records the flag it read just before.  A rejection on a value the    *)
(* stream does not code is not the encoder's documented assumption at work but a different failure.            *)
Observed(e, key) == IF \E i \in 1..Len(e.observed) : e.observed[i].key = key
                    THEN e.observed[CHOOSE i \in 1..Len(e.observed) : e.observed[i].key = key].value ELSE -1
CodedInStream(e, key) == CASE key = "wavelet_index_ho" -> Observed(e, "asym_transform_index_flag") = 1
                           [] key = "dwt_depth_ho"     -> Observed(e, "asym_transform_flag") = 1
                           [] OTHER -> TRUE

V(c, a) == [c |-> c, alarm |-> a]

Clause(e) ==
  IF e.outcome = "produced" /\ ~e.accepted THEN
       IF /\ e.vexc \in {"ValueNotAllowedInLevel", "QuantisationMatrixValueNotAllowedInLevel"} /\ e.vkey \in UncheckedKeys
          /\ Restricts(e, e.vkey) /\ ~InJ(e.vvalue, VSOf(e, e.vkey)) /\ CodedInStream(e, e.vkey)
       THEN V("DeviationUncheckedKey", TRUE)
       ELSE V("ProducedButRejected", TRUE)
  ELSE IF e.outcome = "error"                             THEN V("EncoderError", FALSE)
  ELSE IF e.outcome = "produced" /\ Lenient(e)            THEN V("SpecValidatorLenient", FALSE)
  ELSE IF e.design = "unsat" /\ e.outcome = "produced"    THEN V("SpecExpectedUnsat", FALSE)
  ELSE IF e.design = "produced" /\ e.outcome = "unsat"    THEN V("SpecExpectedProduced", FALSE)
  ELSE V("ok", FALSE)

TraceInit == l = 1 /\ bad = <<>>
TraceNext == /\ l <= Len(Log)
             /\ l' = l + 1
             /\ LET e == Log[l] c == Clause(e) IN
                bad' = IF c.c = "ok" THEN bad
                       ELSE Append(bad, [tid |-> e.tid, line |-> l, clause |-> c.c, alarm |-> c.alarm])
TraceSpec == TraceInit /\ [][TraceNext]_tvars

Report == l = Len(Log) + 1 => PrintT(<<"BAD", ToJson(bad)>>)
AllConsumed == TLCGet("stats").diameter - 1 = Len(Log)
=============================================================================
