------------------------------- MODULE BitIORef -------------------------------
(* Lemma module for C20: the closed-form writer/reader operators of BitIOOps.tla (used by    *)
(* BitIO.tla, BitIOTrace.tla and SerDes.tla because TLC evaluates them ~10x faster) agree    *)
(* with the literal, bit-by-bit machines transcribed from bitstream/io.py:                    *)
(*   writer  w (flushed view + position)   vs  x (file, current byte, next bit, byte offset)  *)
(*   reader  RSeq (closed form)            vs  RSeqRef (loop of read_bit)                     *)
(* Both writers execute the same program in lockstep; after every step the flushed file, the  *)
(* position, the block counter and the outcome must coincide; every read primitive is then    *)
(* evaluated both ways at every position/block state of the flushed file.                     *)
EXTENDS BitIOOps, TLC

CONSTANTS MaxLen

BI == INSTANCE BitIO WITH Modes <- {"w"}, MaxBits <- 0, Pads <- {0}, Bases <- {0}, base <- 0,
                          mode <- "w", f <- <<>>, w <- W0, r <- R0, out <- [err |-> "none"],
                          pre <- R0, inp <- 0, hist <- <<>>, fin <- 0

VARIABLES w, x, err, n
vars == <<w, x, err, n>>

Init == w = W0 /\ x = X0 /\ err = <<"none", "none">> /\ n = 0

Step(o) == /\ n < MaxLen /\ err[1] # "ValueError"
           /\ LET a == WOp(w, o)
                  b == XOp(x, o) IN
              /\ w' = a.w /\ x' = b.w
              /\ err' = <<a.err, b.err, a.placed, b.placed>>
           /\ n' = n + 1
Next == \E o \in BI!WOps : Step(o)
Spec == Init /\ [][Next]_vars

WriterAgrees ==
  /\ err[1] = err[2]
  /\ Len(err) = 4 => err[3] = err[4]
  /\ w.pos = XPos(x) /\ w.on = x.on /\ w.rem = x.rem
  /\ w.buf = XFlush(x).file

ReaderAgrees ==
  \A p \in 0..(Len(w.buf) + 1), k \in {0, 1, 3, 9} :
    /\ RSeq(w.buf, [pos |-> p, on |-> FALSE, rem |-> 0], k) = RSeqRef(w.buf, [pos |-> p, on |-> FALSE, rem |-> 0], k)
    /\ \A m \in {-2, 0, 1, 2, 5, 10} :
         RSeq(w.buf, [pos |-> p, on |-> TRUE, rem |-> m], k) = RSeqRef(w.buf, [pos |-> p, on |-> TRUE, rem |-> m], k)
=============================================================================
