---------------------------- MODULE TestCasesTrace ----------------------------
(* Judges one recorded event per decoder test case really produced by                       *)
(* DECODER_TEST_CASE_GENERATOR_REGISTRY for a configuration (property C05).                 *)
(*   cfg   start of a configuration: profile, lossless, fragments, fields and the CONCRETE   *)
(*         projections asym (dwt_depth_ho > 0 or wavelet_index_ho # wavelet_index), customqm,  *)
(*         hasdefault (a default quantisation matrix exists for the transform), rng (<<luma    *)
(*         offset, luma excursion, colour difference offset, excursion>>), ny (luma            *)
(*         coefficients of the largest slice), cdf (colour difference format index); TLC       *)
(*         classifies them (AbstractOf) and compares with decl, the abstract configuration     *)
(*         of TestCases.tla the driver instantiated                                            *)
(*   gen   fam, raised, n: one call of a registered generator (raised an exception / number    *)
(*         of test cases it returned)                                                          *)
(*   case  fam, sub (name parts), name, accepted (validator verdict on the serialised       *)
(*         stream), params (decoded video parameters and picture coding mode = configured), *)
(*         n (decoded pictures), numbers (limbs), grey (every decoded sample = 2^(depth-1)),*)
(*         eq: [ss1, ss2, mg1, mg2, mg1mg1 |-> decoded pictures equal to the decode of the  *)
(*         plain encoding of static_sprite x1 / x2, mid_gray x1 / x2, mid_gray ++ mid_gray] *)
(*         ver: major_version the test case's first sequence header declares                *)
(* Alarm clauses = the statement of C05; catalogue mismatches are non-alarm.                *)
EXTENDS TestCasesOps, Json, IOUtils, TLC, TLCExt

Log == ndJsonDeserialize(IOEnv.TRACE_FILE)

VARIABLES l, cfg, names, bad
tvars == <<l, cfg, names, bad>>

BaseKey(r) == IF r.rel = "Concat" THEN "mg1mg1"
              ELSE IF r.src = "static_sprite" THEN (IF r.rep = 2 THEN "ss2" ELSE "ss1")
              ELSE (IF r.rep = 2 THEN "mg2" ELSE "mg1")

SubOk(e) == \/ Open(e.fam)
            \/ NoSub(e.fam) /\ e.sub = <<>>
            \/ e.sub \in SubCases(cfg, e.fam)

Clause(e) ==
  LET r == Rel(e.fam) IN
  IF ~e.accepted                                 THEN [c |-> "NotAccepted", alarm |-> TRUE]
  ELSE IF ~e.params                              THEN [c |-> "ParamsDiffer", alarm |-> TRUE]
  ELSE IF e.name \in names                       THEN [c |-> "DuplicateName", alarm |-> TRUE]
  ELSE IF e.fam \notin Families                  THEN [c |-> "UnknownFamily", alarm |-> FALSE]
  ELSE IF r.rel = "SameAsPlain" /\ ~e.eq[BaseKey(r)] THEN [c |-> "NotSameAsPlain", alarm |-> TRUE]
  ELSE IF r.rel = "Concat" /\ ~e.eq[BaseKey(r)]  THEN [c |-> "NotConcatOfPlain", alarm |-> TRUE]
  ELSE IF r.grey /\ ~e.grey                      THEN [c |-> "NotMidGrey", alarm |-> TRUE]
  ELSE IF r.rel = "Numbers" /\ e.numbers # DocumentedNumbers(e.sub[1]) THEN [c |-> "WrongPictureNumbers", alarm |-> TRUE]
  ELSE IF e.n = 0                                THEN [c |-> "NoPictures", alarm |-> FALSE]
  ELSE IF ~SubOk(e)                              THEN [c |-> "UnknownSubCase", alarm |-> FALSE]
  ELSE IF Omitted(cfg, e.fam)                    THEN [c |-> "ShouldBeOmitted", alarm |-> FALSE]
  ELSE IF ExpectedPictures(cfg, e.fam) # 0 /\ e.n # ExpectedPictures(cfg, e.fam) THEN [c |-> "PictureCount", alarm |-> FALSE]
  \* every family but the one that re-encodes the source parameters declares the lowest sufficient version
  ELSE IF ~Open(e.fam) /\ e.ver # MinVersion(cfg)    THEN [c |-> "VersionNotMinimal", alarm |-> FALSE]
  ELSE [c |-> "ok", alarm |-> FALSE]

(* a generator call on a valid configuration: the statement promises test cases that serialise to    *)
(* conformant streams, so a generator that raises instead of producing them violates it               *)
GenClause(e) ==
  IF e.raised                                       THEN [c |-> "GeneratorRaises", alarm |-> TRUE]
  ELSE IF e.fam \notin Families                     THEN [c |-> "UnknownFamily", alarm |-> FALSE]
  ELSE IF e.n > 0 /\ Omitted(cfg, e.fam)            THEN [c |-> "ShouldBeOmitted", alarm |-> FALSE]
  ELSE [c |-> "ok", alarm |-> FALSE]

AbstractOf(e) == [profile |-> e.profile, lossless |-> e.lossless, fragments |-> e.fragments, fields |-> e.fields,
                  asym |-> e.asym, qm |-> QmClassOf(e.customqm, e.hasdefault), range |-> RangeClassOf(e.rng),
                  slice |-> SliceClassOf(e.ny), chroma |-> ChromaOf(e.cdf)]
NoCfg == [profile |-> "none", lossless |-> FALSE, fragments |-> FALSE, fields |-> FALSE,
          asym |-> FALSE, qm |-> "default", range |-> "preset_v2", slice |-> "small", chroma |-> "444"]

TraceInit == l = 1 /\ cfg = NoCfg /\ names = {} /\ bad = <<>>

TraceNext ==
  /\ l <= Len(Log)
  /\ l' = l + 1
  /\ LET e == Log[l] IN
     IF e.ev = "cfg"
     THEN /\ cfg' = AbstractOf(e)
          /\ names' = {}
          /\ bad' = IF AbstractOf(e) = e.decl THEN bad
                    ELSE Append(bad, [tid |-> e.tid, line |-> l, clause |-> "ClassMismatch", alarm |-> FALSE])
     ELSE IF e.ev = "gen"
     THEN /\ UNCHANGED <<cfg, names>>
          /\ LET c == GenClause(e) IN
             bad' = IF c.c = "ok" THEN bad ELSE Append(bad, [tid |-> e.tid, line |-> l, clause |-> c.c, alarm |-> c.alarm])
     ELSE /\ UNCHANGED cfg
          /\ names' = names \cup {e.name}
          /\ LET c == Clause(e) IN
             bad' = IF c.c = "ok" THEN bad ELSE Append(bad, [tid |-> e.tid, line |-> l, clause |-> c.c, alarm |-> c.alarm])

TraceSpec == TraceInit /\ [][TraceNext]_tvars
Report == l = Len(Log) + 1 => PrintT(<<"BAD", ToJson(bad)>>)
AllConsumed == TLCGet("stats").diameter - 1 = Len(Log)
=============================================================================
