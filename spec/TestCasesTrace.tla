---------------------------- MODULE TestCasesTrace ----------------------------
(* Judges one recorded event per decoder test case really produced by                       *)
(* DECODER_TEST_CASE_GENERATOR_REGISTRY for a configuration (property C05).                 *)
(*   cfg   profile, lossless, fragments, fields             start of a configuration        *)
(*   case  fam, sub (name parts), name, accepted (validator verdict on the serialised       *)
(*         stream), params (decoded video parameters and picture coding mode = configured), *)
(*         n (decoded pictures), numbers (limbs), grey (every decoded sample = 2^(depth-1)),*)
(*         eq: [ss1, ss2, mg1, mg2, mg1mg1 |-> decoded pictures equal to the decode of the  *)
(*         plain encoding of static_sprite x1 / x2, mid_gray x1 / x2, mid_gray ++ mid_gray] *)
(* Alarm clauses = the statement of C05; catalogue mismatches are non-alarm.                *)
EXTENDS TestCasesOps, Json, IOUtils, TLC, TLCExt

Log == ndJsonDeserialize(IOEnv.TRACE_FILE)

VARIABLES l, cfg, names, bad
tvars == <<l, cfg, names, bad>>

BaseKey(r) == IF r.rel = "Concat" THEN "mg1mg1"
              ELSE IF r.src = "static_sprite" THEN (IF r.rep = 2 THEN "ss2" ELSE "ss1")
              ELSE (IF r.rep = 2 THEN "mg2" ELSE "mg1")

SubOk(e) == \/ Open(e.fam)
            \/ NoSub(e.fam) /\ e.sub = <<>>
            \/ e.sub \in SubCases(cfg, e.fam)

Clause(e) ==
  LET r == Rel(e.fam) IN
  IF ~e.accepted                                 THEN [c |-> "NotAccepted", alarm |-> TRUE]
  ELSE IF ~e.params                              THEN [c |-> "ParamsDiffer", alarm |-> TRUE]
  ELSE IF e.name \in names                       THEN [c |-> "DuplicateName", alarm |-> TRUE]
  ELSE IF e.fam \notin Families                  THEN [c |-> "UnknownFamily", alarm |-> FALSE]
  ELSE IF r.rel = "SameAsPlain" /\ ~e.eq[BaseKey(r)] THEN [c |-> "NotSameAsPlain", alarm |-> TRUE]
  ELSE IF r.rel = "Concat" /\ ~e.eq[BaseKey(r)]  THEN [c |-> "NotConcatOfPlain", alarm |-> TRUE]
  ELSE IF r.grey /\ ~e.grey                      THEN [c |-> "NotMidGrey", alarm |-> TRUE]
  ELSE IF r.rel = "Numbers" /\ e.numbers # DocumentedNumbers(e.sub[1]) THEN [c |-> "WrongPictureNumbers", alarm |-> TRUE]
  ELSE IF e.n = 0                                THEN [c |-> "NoPictures", alarm |-> FALSE]
  ELSE IF ~SubOk(e)                              THEN [c |-> "UnknownSubCase", alarm |-> FALSE]
  ELSE IF Omitted(cfg, e.fam)                    THEN [c |-> "ShouldBeOmitted", alarm |-> FALSE]
  ELSE IF ExpectedPictures(cfg, e.fam) # 0 /\ e.n # ExpectedPictures(cfg, e.fam) THEN [c |-> "PictureCount", alarm |-> FALSE]
  ELSE [c |-> "ok", alarm |-> FALSE]

TraceInit == l = 1 /\ cfg = [profile |-> "none", lossless |-> FALSE, fragments |-> FALSE, fields |-> FALSE] /\ names = {} /\ bad = <<>>

TraceNext ==
  /\ l <= Len(Log)
  /\ l' = l + 1
  /\ LET e == Log[l] IN
     IF e.ev = "cfg"
     THEN /\ cfg' = [profile |-> e.profile, lossless |-> e.lossless, fragments |-> e.fragments, fields |-> e.fields]
          /\ names' = {} /\ UNCHANGED bad
     ELSE /\ UNCHANGED cfg
          /\ names' = names \cup {e.name}
          /\ LET c == Clause(e) IN
             bad' = IF c.c = "ok" THEN bad ELSE Append(bad, [tid |-> e.tid, line |-> l, clause |-> c.c, alarm |-> c.alarm])

TraceSpec == TraceInit /\ [][TraceNext]_tvars
Report == l = Len(Log) + 1 => PrintT(<<"BAD", ToJson(bad)>>)
AllConsumed == TLCGet("stats").diameter - 1 = Len(Log)
=============================================================================
