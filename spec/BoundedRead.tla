----------------------------- MODULE BoundedRead -----------------------------
(* The two readers of signed exp-Golomb values inside a bounded block (property C08):       *)
(*   V -- the validator's  read_bitb / read_uintb / read_sintb / flush_inputb  (decoder/io.py, *)
(*        (A.4.2): a counter `left` that stops at 0; an exhausted block yields 1-bits),       *)
(*   D -- the deserialiser's BitstreamReader (bitstream/io.py): `left` is decremented first  *)
(*        and may go negative; 1-bits once it is below 0; bounded_block_end reports           *)
(*        max(0, left) unused bits which the caller then reads as padding.                    *)
(* One behaviour: pick a bit string and a block length, read MaxVals values with both         *)
(* readers in lock step, end the block.  Theorem (TLC, exhaustive for all bit strings of      *)
(* length L): both readers return the same values and stand at the same position afterwards. *)
EXTENDS Integers, Sequences, TLC

CONSTANTS L, MaxVals

VARIABLES bits,   \* the bit string (length L); the block is its prefix of length blk
          blk,
          v, d,   \* reader states [pos, left]
          vv, dv, \* values returned so far
          ended

vars == <<bits, blk, v, d, vv, dv, ended>>

BitAt(p) == bits[p + 1]

(* --- validator (A.4.2) --- *)
VBit(s) == IF s.left = 0 THEN [b |-> 1, s |-> s]
           ELSE [b |-> BitAt(s.pos), s |-> [pos |-> s.pos + 1, left |-> s.left - 1]]
RECURSIVE VUint(_, _)
VUint(s, val) == LET r == VBit(s) IN
                 IF r.b = 1 THEN [x |-> val - 1, s |-> r.s]
                 ELSE LET r2 == VBit(r.s) IN VUint(r2.s, 2 * val + r2.b)
VSint(s) == LET u == VUint(s, 1) IN
            IF u.x = 0 THEN u
            ELSE LET r == VBit(u.s) IN [x |-> IF r.b = 1 THEN -u.x ELSE u.x, s |-> r.s]
VFlush(s) == [pos |-> s.pos + s.left, left |-> 0]

(* --- deserialiser (BitstreamReader) --- *)
DBit(s) == LET rem == s.left - 1 IN
           IF rem <= -1 THEN [b |-> 1, s |-> [pos |-> s.pos, left |-> rem]]
           ELSE [b |-> BitAt(s.pos), s |-> [pos |-> s.pos + 1, left |-> rem]]
RECURSIVE DUint(_, _)
DUint(s, val) == LET r == DBit(s) IN
                 IF r.b = 1 THEN [x |-> val - 1, s |-> r.s]
                 ELSE LET r2 == DBit(r.s) IN DUint(r2.s, 2 * val + r2.b)
DSint(s) == LET u == DUint(s, 1) IN
            IF u.x = 0 THEN u
            ELSE LET r == DBit(u.s) IN [x |-> IF r.b = 1 THEN -u.x ELSE u.x, s |-> r.s]
DEnd(s) == LET unused == IF s.left > 0 THEN s.left ELSE 0 IN [pos |-> s.pos + unused, left |-> 0]

Init == /\ bits \in [1..L -> {0, 1}] /\ blk \in 0..L
        /\ v = [pos |-> 0, left |-> blk] /\ d = [pos |-> 0, left |-> blk]
        /\ vv = <<>> /\ dv = <<>> /\ ended = FALSE

Read == /\ ~ended /\ Len(vv) < MaxVals
        /\ LET a == VSint(v) b == DSint(d) IN
           /\ v' = a.s /\ d' = b.s /\ vv' = Append(vv, a.x) /\ dv' = Append(dv, b.x)
        /\ UNCHANGED <<bits, blk, ended>>
EndBlock == /\ ~ended /\ Len(vv) = MaxVals
            /\ v' = VFlush(v) /\ d' = DEnd(d) /\ ended' = TRUE
            /\ UNCHANGED <<bits, blk, vv, dv>>
Next == Read \/ EndBlock
Spec == Init /\ [][Next]_vars

SameValues   == vv = dv
SamePosition == v.pos = d.pos
BlockConsumed == ended => v.pos = blk /\ d.pos = blk
NeverPastBlock == v.pos <= blk /\ d.pos <= blk
=============================================================================
