----------------------------- MODULE LevelTables -----------------------------
(* C16 -- the encoder respects any level table it claims to satisfy.                          *)
(*                                                                                            *)
(* A TLC choice machine over level definitions, in three classes:                             *)
(*  "full"  SYNTHETIC: a single-column allowed-value table (every key `any`, except one or    *)
(*          two restricted keys) together with a data-unit ordering pattern, for each of a    *)
(*          few tiny codec configurations;                                                    *)
(*  "geom"  SYNTHETIC: a single-column table pinning one DERIVED key (the values the encoder  *)
(*          computes from the codec features to select columns) for geometry configurations   *)
(*          x picture coding mode x source sampling, agreeing and disagreeing, whose frame    *)
(*          and field DC-band heights divide differently by slices_y;                         *)
(*  "real"  the REAL multi-column table: one feature set per level x every base video format  *)
(*          x source sampling x coding mode x a perturbation, whether or not the level admits *)
(*          the format (mostly it does not: the encoder must then refuse).                    *)
(* A completed choice (stage = Done) is handed to the driver, which installs the synthetic    *)
(* table as level 1 of the real library (in-process, restored afterwards; nothing is          *)
(* installed for class "real"), runs the real encoder and - if it produced a sequence         *)
(* rather than an UnsatisfiableCodecFeaturesError - the real validator under the same table.  *)
(*                                                                                            *)
(* Outcome space {unsat, produced}.  The property:  produced => validator accepts.            *)
(*                                                                                            *)
(* The DESIGN of the encoder's constraint handling is transcribed here (which keys it         *)
(* consults and how), so that TLC can check the property on the design (DesignSound) and can  *)
(* predict the outcome of every table (compared with the implementation, never an alarm):     *)
(*   - codec_features_to_trivial_level_constraints: the "feature keys" select table columns;  *)
(*   - iter_sequence_headers / SeqHeaderOps!SourceOptions: base format, flags, indices and    *)
(*     values of the sequence header;                                                         *)
(*   - decide_extended_transform_flag: the two asym_transform flags;                          *)
(*   - make_sequence: the ordering pattern (no prediction here: see SymbolRegex / C18, C19);  *)
(*   - every other key is NOT consulted (UncheckedKeys): a named deviation of the design,     *)
(*     DeviationUncheckedKey, under which the property fails already in the model.           *)
EXTENDS SeqHeaderOps

CONSTANTS MaxRestr,    \* 1: one restricted key; 2: all pairs of restricted keys
          Modes,       \* which classes of level definitions are enumerated: subset of {"full", "geom", "real"}
          Wide         \* FALSE: the listed geometries / three format perturbations; TRUE: the geometry box / all six

VARIABLES stage, ch, out
vars == <<stage, ch, out>>

(* ------------------------------------------------------------------ the tiny configurations *)
TinyVP(cd, ss) ==
  [Defaults(14) EXCEPT !.frame_width = 8, !.frame_height = 4, !.color_diff_format_index = cd,
                       !.source_sampling = ss, !.frame_rate_numer = 1, !.frame_rate_denom = 1,
                       !.clean_width = 8, !.clean_height = 4,
                       !.luma_offset = 0, !.luma_excursion = 255,
                       !.color_diff_offset = 128, !.color_diff_excursion = 255]

(* a tiny format NONE of whose groups can be expressed by a base format default or a preset: frame size,    *)
(* frame rate and clean area as TinyVP, plus a pixel aspect ratio, a signal range and three colour indices     *)
(* that are no preset (and not what colour spec index 0 resets them to): every value of the sequence header    *)
(* can only be coded EXPLICITLY, so a table entry for an explicit value decides whether there is a header      *)
ExplicitVP ==
  [TinyVP(0, 0) EXCEPT !.pixel_aspect_ratio_numer = 3, !.pixel_aspect_ratio_denom = 2,
                       !.luma_offset = 1, !.luma_excursion = 1000,
                       !.color_diff_offset = 2, !.color_diff_excursion = 500,
                       !.color_primaries_index = 1, !.color_matrix_index = 2, !.transfer_function_index = 1]

(* level = the level the configuration claims (1 = the synthetic level); sb_num / sb_den = picture_bytes / *)
(* number of slices as a reduced fraction (low delay only; 24/2 = 12/1)                                   *)
CfgL(level, name, vp, pcm, profile, wi, wiho, dd, ddho, sx, sy, frag, lossless, pb, cqm, sbn, sbd) ==
  [level |-> level, name |-> name, vp |-> vp, pcm |-> pcm, profile |-> profile, wavelet_index |-> wi,
   wavelet_index_ho |-> wiho, dwt_depth |-> dd, dwt_depth_ho |-> ddho, slices_x |-> sx, slices_y |-> sy,
   frag |-> frag, lossless |-> lossless, picture_bytes |-> pb, custom_quant_matrix |-> cqm,
   sb_num |-> sbn, sb_den |-> sbd]
Cfg(name, vp, pcm, profile, wi, wiho, dd, ddho, sx, sy, frag, lossless, pb, cqm) ==
  CfgL(1, name, vp, pcm, profile, wi, wiho, dd, ddho, sx, sy, frag, lossless, pb, cqm,
       IF profile = 0 THEN pb \div (sx * sy) ELSE 0, 1)

Cfgs == << Cfg("hq_lossy",     TinyVP(0, 0), 0, 3, 4, 4, 1, 0, 2, 1, 0, 0, 24, 0),
           Cfg("ld_lossy",     TinyVP(0, 0), 0, 0, 4, 4, 1, 0, 2, 1, 0, 0, 24, 0),
           Cfg("hq_fields",    TinyVP(1, 1), 1, 3, 4, 4, 1, 0, 2, 1, 0, 1, 0, 0),
           Cfg("hq_fragments", TinyVP(0, 0), 0, 3, 4, 4, 1, 0, 2, 1, 1, 0, 24, 0),
           Cfg("hq_asym",      TinyVP(0, 0), 0, 3, 1, 1, 1, 1, 1, 1, 0, 1, 0, 0),
           \* different wavelets in the two directions: the stream CODES wavelet_index_ho (asym_transform_index_flag)
           Cfg("hq_asym_wavelets", TinyVP(0, 0), 0, 3, 3, 1, 1, 0, 1, 1, 0, 1, 0, 0),
           Cfg("hq_custom_qm", TinyVP(1, 0), 0, 3, 1, 1, 1, 0, 1, 2, 0, 0, 32, 1),
           \* a quantisation matrix IS supplied (so the stream signals a custom matrix) but its values are the
           \* Annex D defaults for this transform: "custom" is about what is coded, not about the values
           Cfg("hq_explicit_default_qm", TinyVP(1, 0), 0, 3, 1, 1, 1, 0, 1, 2, 0, 0, 32, 1),
           Cfg("hq_explicit",  ExplicitVP,   0, 3, 4, 4, 1, 0, 2, 1, 0, 1, 0, 0) >>

FT(c) == [profile |-> c.profile, wavelet_index |-> c.wavelet_index, dwt_depth |-> c.dwt_depth,
          dwt_depth_ho |-> c.dwt_depth_ho, slices_x |-> c.slices_x, slices_y |-> c.slices_y,
          custom_quant_matrix |-> c.custom_quant_matrix,
          sb_num |-> c.sb_num, sb_den |-> c.sb_den]
FeatureValues(c) == CV(c.level, c.pcm, c.vp, FT(c))     \* the synthetic level is level 1

(* does the stream carry extended transform parameters / need version 3?  (11.2.2, 12.4.4.1) *)
NeedsV3(c) == c.frag = 1 \/ c.wavelet_index # c.wavelet_index_ho \/ c.dwt_depth_ho # 0

(* ------------------------------------------------------------- the geometry configurations *)
(* Class "geom": small pictures whose DC-band dimensions divide by the slice counts differently *)
(* for frames and for fields (and controls where they do not), under every combination of      *)
(* picture coding mode and source sampling - in particular the two DISAGREEING combinations    *)
(* (progressive source coded as fields, interlaced source coded as frames), which no real      *)
(* level admits together with a restriction of a derived key.  Each is combined with a         *)
(* synthetic table that pins one DERIVED key (every key of                                     *)
(* codec_features_to_trivial_level_constraints, plus the scan format keys).                    *)
GeomVP(w, h, cd, ss) == [TinyVP(cd, ss) EXCEPT !.frame_width = w, !.frame_height = h,
                                                !.clean_width = w, !.clean_height = h]
Geom(w, h, cd, profile, dd, ddho, sx, sy) ==
  [w |-> w, h |-> h, cd |-> cd, profile |-> profile, dd |-> dd, ddho |-> ddho, sx |-> sx, sy |-> sy]

(* frame DC height / field DC height (luma; chroma in brackets) and their divisibility by slices_y:   *)
GeomList ==
  { Geom(8, 12, 0, 3, 1, 0, 1, 2),    \* 6 / 3            by 2: frame yes, field no
    Geom(8, 12, 0, 3, 0, 0, 1, 4),    \* 12 / 6           by 4: frame yes, field no
    Geom(8, 12, 0, 3, 2, 0, 1, 2),    \* 3 / 2 (padding)  by 2: frame no, field yes
    Geom(8, 12, 0, 3, 1, 0, 1, 3),    \* 6 / 3            by 3: both (control)
    Geom(8, 24, 2, 3, 0, 0, 1, 4),    \* 24 (12) / 12 (6) by 4: frame yes, field no (chroma only)
    Geom(16, 24, 1, 3, 2, 0, 2, 2),   \* 6 / 3            by 2: frame yes, field no; two slices across
    Geom(16, 12, 0, 3, 1, 1, 2, 2),   \* 6 / 3, asymmetric transform (version 3)
    Geom(8, 12, 0, 0, 1, 0, 1, 2),    \* low delay: slice_bytes keys are the derived ones
    Geom(8, 8, 0, 3, 1, 0, 1, 2) }    \* 4 / 2            by 2: both (control)
GeomBox ==
  { Geom(8, h, cd, 3, dd, 0, 1, sy) : h \in {8, 12, 24}, cd \in {0, 2}, dd \in {0, 1, 2}, sy \in {1, 2, 3, 4} }
Geoms == IF Wide THEN GeomList \cup GeomBox ELSE GeomList

GeomCfg(g, pcm, ss) ==
  LET lossless == IF g.profile = 3 THEN 1 ELSE 0
      pb == IF g.profile = 3 THEN 0 ELSE 12 * g.sx * g.sy IN
  Cfg("geom", GeomVP(g.w, g.h, g.cd, ss), pcm, g.profile, 4, 4, g.dd, g.ddho, g.sx, g.sy, 0, lossless, pb, 0)

(* DC-band dimensions of the coded picture (11.6.2, 13.1.2 padding) *)
DCDims(c, pcm) ==
  LET vp  == c.vp
      cw  == IF vp.color_diff_format_index \in {1, 2} THEN vp.frame_width \div 2 ELSE vp.frame_width
      ch0 == IF vp.color_diff_format_index = 2 THEN vp.frame_height \div 2 ELSE vp.frame_height
      lh  == IF pcm = 1 THEN vp.frame_height \div 2 ELSE vp.frame_height
      chh == IF pcm = 1 THEN ch0 \div 2 ELSE ch0
      sx  == Pow2(c.dwt_depth + c.dwt_depth_ho)
      sy  == Pow2(c.dwt_depth)
  IN [lw |-> PadTo(vp.frame_width, sx) \div sx, lh |-> PadTo(lh, sy) \div sy,
      cw |-> PadTo(cw, sx) \div sx, ch |-> PadTo(chh, sy) \div sy]
(* a usable geometry: regular format, no empty slices *)
GeomOK(c) == /\ Regular(c.vp, c.pcm)
             /\ LET d == DCDims(c, c.pcm) IN
                c.slices_x <= d.lw /\ c.slices_x <= d.cw /\ c.slices_y <= d.lh /\ c.slices_y <= d.ch
GeomCfgs == {c \in {GeomCfg(g, pcm, ss) : g \in Geoms, pcm \in {0, 1}, ss \in {0, 1}} : GeomOK(c)}
(* does the derived value slices_have_same_dimensions depend on the coding mode for this geometry? *)
ModeSensitive(c) == SameSliceDims(c.vp, 0, FT(c)) # SameSliceDims(c.vp, 1, FT(c))

(* ------------------------------------------------- the real level table and formats near it *)
(* Class "real": the REAL level table (all its columns, as generated from the tree under test)  *)
(* with one feature set per level (the smallest values its columns allow, as C15 does) and      *)
(* every base video format x source sampling x picture coding mode x a perturbation of one      *)
(* group - WITHOUT asking whether the level admits the format: for most it does not, and the    *)
(* encoder must then refuse (unsat) rather than emit a header assembled from different columns. *)
(* The sequence has no pictures (the formats are large): sequence_header end_of_sequence.       *)
(* Levels whose ordering restriction demands a picture after every sequence header cannot       *)
(* produce such a sequence at all and are left out (a bound, stated in the evidence).           *)
PictureAfterEveryHeader == {64, 65, 66}      \* LEVEL_SEQUENCE_RESTRICTIONS of the real table (ST 2042-2)
Pick(s, d) == IF s.any THEN d ELSE MinOf({r[1] : r \in s.rs})
UsableColumn(c) == ~c.level.any /\ (\A key \in {"level", "profile", "wavelet_index", "dwt_depth", "slices_x", "slices_y"} :
                                      c[key].any \/ c[key].rs # {})
RealFeat(c) ==
  LET prof == Pick(c.profile, 3)
      sx == Pick(c.slices_x, 1)
      sy == Pick(c.slices_y, 1)
      n  == Pick(c.slice_bytes_numerator, 4)
      m  == Pick(c.slice_bytes_denominator, 1)
      wi == Pick(c.wavelet_index, 0)
  IN [level |-> Pick(c.level, 0), profile |-> prof, wavelet_index |-> wi, dwt_depth |-> Pick(c.dwt_depth, 0),
      slices_x |-> sx, slices_y |-> sy,
      sb_num |-> IF prof = 0 THEN n ELSE 0, sb_den |-> IF prof = 0 THEN m ELSE 1,
      picture_bytes |-> IF prof = 0 THEN (n * sx * sy) \div m ELSE 0]
RealFeats == {f \in {RealFeat(LevelColumns[k]) : k \in {j \in 1..Len(LevelColumns) : UsableColumn(LevelColumns[j])}} :
                f.level \notin PictureAfterEveryHeader}

RealPerts == IF Wide THEN {"none", "height", "rate", "subsampling", "clean", "range"} ELSE {"none", "height", "rate"}
RealVP(b, ss, pert) ==
  LET D == [Defaults(b) EXCEPT !.source_sampling = ss]
      B == Base(b) IN
  CASE pert = "none"   -> D
    [] pert = "height" -> [D EXCEPT !.frame_height = @ + 4]
    [] pert = "rate"   -> LET r == FrameRates[(B.frame_rate_index % Len(FrameRates)) + 1]
                          IN [D EXCEPT !.frame_rate_numer = r[1], !.frame_rate_denom = r[2]]
    [] pert = "subsampling" -> [D EXCEPT !.color_diff_format_index = (@ + 1) % 3]
    [] pert = "clean"  -> [D EXCEPT !.clean_width = @ - 4, !.clean_height = @ - 2, !.left_offset = @ + 2]
    [] pert = "range"  -> LET r == SignalRanges[(B.signal_range_index % Len(SignalRanges)) + 1]
                          IN [D EXCEPT !.luma_offset = r[1], !.luma_excursion = r[2],
                                       !.color_diff_offset = r[3], !.color_diff_excursion = r[4]]
RealCfg(f, b, ss, pcm, pert) ==
  CfgL(f.level, "real", RealVP(b, ss, pert), pcm, f.profile, f.wavelet_index, f.wavelet_index, f.dwt_depth, 0,
       f.slices_x, f.slices_y, 0, IF f.profile = 3 THEN 1 ELSE 0, f.picture_bytes, 0, f.sb_num, f.sb_den)

(* the design under the real table (operators of SeqHeaderOps, as checked by C15 for ADMITTED formats): *)
(* columns are filtered by the derived values AND the base format under consideration                    *)
RealCols(c) == MatchingColumns(FeatureValues(c))
RealDesign(c) ==
  LET cols == RealCols(c) IN
  IF \E b \in AllowedBases(cols, c.vp) : Len(HeadersForBase(cols, c.vp, b)) > 0 THEN "produced" ELSE "unsat"
RealHeaderRec(c, b, e) == [level |-> c.level, profile |-> c.profile, version |-> HeaderVersion(c.profile, e),
                           b |-> b, e |-> e, pcm |-> c.pcm]
RealSound(c) ==
  LET cols == RealCols(c) IN
  \A b \in AllowedBases(cols, c.vp) :
    LET hs == HeadersForBase(cols, c.vp, b) IN
    \A t \in 1..Len(hs) : /\ DecodeHeader(b, hs[t]) = c.vp
                          /\ LevelAccepts(RealHeaderRec(c, b, hs[t]))

(* --------------------------------------------------------------- keys and restriction kinds *)
FlagKeys  == {"custom_dimensions_flag", "custom_color_diff_format_flag", "custom_scan_format_flag",
              "custom_frame_rate_flag", "custom_pixel_aspect_ratio_flag", "custom_clean_area_flag",
              "custom_signal_range_flag", "custom_color_spec_flag", "custom_color_primaries_flag",
              "custom_color_matrix_flag", "custom_transfer_function_flag",
              "asym_transform_index_flag", "asym_transform_flag"}
IndexKeys == {"frame_rate_index", "pixel_aspect_ratio_index", "custom_signal_range_index", "color_spec_index"}
VideoValueKeys == VPKeys \ {"top_field_first"}
FeatureKeys == {"profile", "picture_coding_mode", "wavelet_index", "dwt_depth", "slices_x", "slices_y",
                "slices_have_same_dimensions", "custom_quant_matrix",
                "slice_bytes_numerator", "slice_bytes_denominator", "slice_prefix_bytes"}
(* keys the encoder design never consults *)
UncheckedKnown   == {"wavelet_index_ho", "dwt_depth_ho", "minor_version"}
UncheckedUnknown == {"major_version", "slice_size_scaler", "quant_matrix_values", "qindex", "total_slice_bytes"}
UncheckedKeys    == UncheckedKnown \cup UncheckedUnknown

AllKeys == FlagKeys \cup IndexKeys \cup VideoValueKeys \cup FeatureKeys \cup UncheckedKeys \cup {"base_video_format"}
KeySeq  == SetToSeq(AllKeys)      \* some fixed enumeration (used to count unordered pairs once)
ASSUME AllKeys \subseteq T_LevelKeys

AnyVS == [any |-> TRUE, rs |-> {}]
SetVS(rs) == [any |-> FALSE, rs |-> rs]
Big == 1000000

KnownValue(key, c) ==
  IF key \in VideoValueKeys THEN c.vp[key]
  ELSE IF key \in DOMAIN FeatureValues(c) THEN FeatureValues(c)[key]
  ELSE IF key = "wavelet_index_ho" THEN c.wavelet_index_ho
  ELSE IF key = "dwt_depth_ho" THEN c.dwt_depth_ho
  ELSE 0     \* minor_version; feature keys of the other profile

(* kind "empty": the entry is the EMPTY set, i.e. NO value is allowed (a blank cell of the csv) - not "any *)
(* value".  For a value key this is the table "the custom flag may be set (and index 0 used) but there is no *)
(* value you may code": a format that needs the value coded explicitly has no header.  Offered for every key *)
(* the sequence-header design consults and every derived (feature) key.  Not offered for the two asym        *)
(* transform flags (decide_extended_transform_flag reads an empty entry as "FALSE allowed" by design, see     *)
(* EtpFlag) nor for the never-consulted UncheckedUnknown keys (nothing new to learn beyond the named          *)
(* deviation).                                                                                               *)
EtpFlagKeys == {"asym_transform_index_flag", "asym_transform_flag"}
Kinds(key) ==
  IF key \in EtpFlagKeys THEN {"true", "false"}
  ELSE IF key \in FlagKeys THEN {"true", "false", "empty"}
  ELSE IF key \in IndexKeys THEN {"zero", "presets", "empty"}
  ELSE IF key = "base_video_format" THEN {"only", "except", "mismatch", "zero", "empty"}
  ELSE IF key \in UncheckedUnknown THEN {"zero", "le1", "le3", "ge4", "two"}
  ELSE {"only", "except", "empty"}

VS(key, kind, c) ==
  CASE kind = "true"     -> SetVS({<<1, 1>>})
    [] kind = "false"    -> SetVS({<<0, 0>>})
    [] kind = "empty"    -> SetVS({})
    [] kind = "zero"     -> SetVS({<<0, 0>>})
    [] kind = "presets"  -> SetVS({<<1, 100>>})
    [] kind = "le1"      -> SetVS({<<0, 1>>})
    [] kind = "le3"      -> SetVS({<<0, 3>>})
    [] kind = "two"      -> SetVS({<<2, 2>>})
    [] kind = "ge4"      -> SetVS({<<4, Big>>})
    [] kind = "mismatch" -> SetVS({<<1, 1>>})           \* base format 1 has the other top_field_first
    [] kind = "only"     -> LET v == IF key = "base_video_format" THEN 14 ELSE KnownValue(key, c)
                            IN SetVS({<<v, v>>})
    [] kind = "except"   -> LET v == IF key = "base_video_format" THEN 14 ELSE KnownValue(key, c)
                                top == IF key = "base_video_format" THEN NumBases - 1 ELSE Big
                            IN SetVS((IF v > 0 THEN {<<0, v - 1>>} ELSE {}) \cup {<<v + 1, top>>})

Patterns == {"any", "alternate", "padding_after_each", "aux_at_end", "no_padding_no_aux", "header_once", "no_pictures"}

(* the synthetic column: every key of the real table `any`, level {1}, the chosen restrictions *)
Column(restr) ==
  [k \in T_LevelKeys |-> IF \E r \in restr : r.key = k THEN (CHOOSE r \in restr : r.key = k).vs
                         ELSE IF k = "level" THEN SetVS({<<1, 1>>}) ELSE AnyVS]

(* ------------------------------------------------------------------ design of the encoder *)
(* 1. the feature keys select the columns: with one column, unsat if it does not match *)
FeaturesMatch(c, col) == ColumnMatches(col, FeatureValues(c))

(* 2. the sequence header: some base format allowed by the column (and with the same         *)
(*    top_field_first) must have at least one encoding                                        *)
HeaderBases(c, col) ==
  {b \in Bases : /\ Allowed(col, "base_video_format", b)
                 /\ Len(SourceOptions(Defaults(b), c.vp, col)) > 0}

(* 3. decide_extended_transform_flag: required => TRUE must be allowed; otherwise prefer      *)
(*    FALSE; an empty entry is read as allowing FALSE                                         *)
EtpFlag(col, key, required) ==
  LET s == col[key]
      allowed(v) == IF ~s.any /\ s.rs = {} THEN v = 0 ELSE In(v, s)
  IN IF required THEN (IF allowed(1) THEN 1 ELSE -1)
     ELSE IF allowed(0) THEN 0 ELSE IF allowed(1) THEN 1 ELSE -1
EtpIndexFlag(c, col) == EtpFlag(col, "asym_transform_index_flag", c.wavelet_index # c.wavelet_index_ho)
EtpAsymFlag(c, col)  == EtpFlag(col, "asym_transform_flag", c.dwt_depth_ho # 0)

(* the outcome the design predicts; of the ordering patterns only "no_pictures" cannot be satisfied  *)
(* by a sequence that contains pictures (the regular expressions themselves are concretised by the   *)
(* driver; their semantics is the subject of SymbolRegex / C18, C19)                                 *)
DesignOutcome(c, col, pattern) ==
  IF ~FeaturesMatch(c, col) THEN "unsat"
  ELSE IF ~(\E b \in Bases : Allowed(col, "base_video_format", b) /\ Len(SourceOptions(Defaults(b), c.vp, col)) > 0) THEN "unsat"
  ELSE IF EtpIndexFlag(c, col) = -1 \/ EtpAsymFlag(c, col) = -1 THEN "unsat"
  ELSE IF pattern = "no_pictures" THEN "unsat"
  ELSE "produced"

(* --------------------------------------------- what the validator will say, as far as known *)
(* values of the produced stream that the model knows, for every header encoding the design    *)
(* may choose: all of them are admitted by construction (SourceOptions only yields admitted    *)
(* encodings); the extended transform parameters are only present in version-3 streams.        *)
EtpAccepted(c, col) ==
  NeedsV3(c) =>
    /\ Allowed(col, "asym_transform_index_flag", EtpIndexFlag(c, col))
    /\ (EtpIndexFlag(c, col) = 1 => Allowed(col, "wavelet_index_ho", c.wavelet_index_ho))
    /\ Allowed(col, "asym_transform_flag", EtpAsymFlag(c, col))
    /\ (EtpAsymFlag(c, col) = 1 => Allowed(col, "dwt_depth_ho", c.dwt_depth_ho))

HeaderAccepted(c, col) ==
  \A b \in HeaderBases(c, col) :
    LET hs == SourceOptions(Defaults(b), c.vp, col) IN
    \A t \in 1..Len(hs) :
      /\ DecodeHeader(b, hs[t]) = c.vp
      /\ \A j \in 1..Len(SimpleGroups) : OptAllowed(col, SimpleGroups[j], hs[t][SimpleGroups[j]])
      /\ OptAllowed(col, "cs", hs[t].cs)
      /\ \A j \in 1..3 : OptAllowed(col, ColorParts[j], hs[t][ColorParts[j]])

(* NAMED DEVIATION: the design consults no rule for these keys, so a table that restricts one  *)
(* of them can be violated by a stream the encoder happily produces.                           *)
DeviationUncheckedKey(restr) == \E r \in restr : r.key \in UncheckedKeys

(* asym flags forced TRUE although not required make the encoder write wavelet_index_ho /     *)
(* dwt_depth_ho; those values are not checked against the table either                         *)

(* the table whose single restriction is an EMPTY entry for an explicitly coded video value, while the same *)
(* configuration under the `only` entry for that key (the value it wants) has a header: the empty entry      *)
(* alone - not the flag, not the index - is what leaves the format without an encoding                       *)
ExplicitOnly(c, restr) ==
  /\ Cardinality(restr) = 1
  /\ \E r \in restr :
        /\ r.kind = "empty" /\ r.key \in VideoValueKeys
        /\ DesignOutcome(c, Column(restr), "any") = "unsat"
        /\ DesignOutcome(c, Column({[r EXCEPT !.vs = VS(r.key, "only", c)]}), "any") = "produced"

(* -------------------------------------------------------------------------- choice machine *)
(* class "full": the seven tiny configurations x every key; "geom": geometry configurations x the derived *)
(* keys; "real": the real table (no synthetic column; completed in one step)                           *)
GeomKeys == FeatureKeys \cup {"source_sampling", "custom_scan_format_flag"}
KeysOf(class) == IF class = "geom" THEN GeomKeys ELSE AllKeys
ASSUME GeomKeys \subseteq AllKeys

Done == 5
NoCfg == [name |-> "none"]
Init == stage = 1 /\ ch = [class |-> "none", cfg |-> NoCfg, restr |-> {}, pattern |-> "any"] /\ out = <<>>

ChooseCfg == /\ stage = 1 /\ "full" \in Modes
             /\ \E i \in 1..Len(Cfgs) : ch' = [ch EXCEPT !.class = "full", !.cfg = Cfgs[i]]
             /\ stage' = 2 /\ UNCHANGED out

ChooseGeom == /\ stage = 1 /\ "geom" \in Modes
              /\ \E c \in GeomCfgs : ch' = [ch EXCEPT !.class = "geom", !.cfg = c]
              /\ stage' = 2 /\ UNCHANGED out

Restriction(i, kind, c) == [key |-> KeySeq[i], kind |-> kind, vs |-> VS(KeySeq[i], kind, c), idx |-> i]

ChooseFirst == /\ stage = 2
               /\ \E i \in 1..Len(KeySeq) : \E kind \in Kinds(KeySeq[i]) :
                    /\ KeySeq[i] \in KeysOf(ch.class)
                    /\ (kind = "empty" => ch.class = "full")      \* geom pins derived keys: an empty entry never matches
                    /\ ch' = [ch EXCEPT !.restr = {Restriction(i, kind, ch.cfg)}]
               /\ stage' = 3 /\ UNCHANGED out

(* the second restricted key (a different key; unordered pairs are counted once) *)
ChooseSecond == /\ stage = 3
                /\ \/ ch' = ch
                   \/ /\ MaxRestr >= 2
                      /\ LET first == CHOOSE r \in ch.restr : TRUE IN
                         \E i \in (first.idx + 1)..Len(KeySeq) : \E kind \in Kinds(KeySeq[i]) :
                           /\ KeySeq[i] \in KeysOf(ch.class)
                           /\ (kind = "empty" => ch.class = "full")
                           /\ ch' = [ch EXCEPT !.restr = @ \cup {Restriction(i, kind, ch.cfg)}]
                /\ stage' = 4 /\ UNCHANGED out

ChoosePattern == /\ stage = 4
                 /\ \E p \in Patterns :
                      \* ordering patterns are combined with single restrictions of class "full" only
                      \* (and not with the "empty" kind nor the all-explicit configuration: their subject is the
                      \* sequence header, which the ordering of the data units does not touch)
                      /\ (p # "any" => /\ Cardinality(ch.restr) = 1 /\ ch.class = "full"
                                       /\ \A r \in ch.restr : r.kind # "empty"
                                       /\ ch.cfg.name # "hq_explicit")
                      /\ LET c == ch.cfg
                             col == Column(ch.restr) IN
                         out' = [class |-> ch.class, cfg |-> c, restr |-> ch.restr, pattern |-> p, npics |-> 2,
                                 design |-> DesignOutcome(c, col, p),
                                 deviation |-> DeviationUncheckedKey(ch.restr),
                                 mode_sensitive |-> ModeSensitive(c),
                                 explicit_only |-> ExplicitOnly(c, ch.restr)]
                      /\ ch' = [ch EXCEPT !.pattern = p]
                 /\ stage' = Done

(* the real table: level features x base format x source sampling x coding mode x perturbation *)
ChooseReal == /\ stage = 1 /\ "real" \in Modes
              /\ \E f \in RealFeats : \E b \in Bases : \E ss \in {0, 1} : \E pcm \in {0, 1} : \E pert \in RealPerts :
                   LET c == RealCfg(f, b, ss, pcm, pert) IN
                   /\ Regular(c.vp, pcm)
                   /\ out' = [class |-> "real", cfg |-> c, restr |-> {}, pattern |-> "real", npics |-> 0,
                              design |-> RealDesign(c), deviation |-> FALSE, mode_sensitive |-> FALSE,
                              explicit_only |-> FALSE,
                              base |-> b, pert |-> pert]
                   /\ ch' = [ch EXCEPT !.class = "real", !.cfg = c, !.pattern = "real"]
              /\ stage' = Done

Next == ChooseCfg \/ ChooseGeom \/ ChooseFirst \/ ChooseSecond \/ ChoosePattern \/ ChooseReal
Spec == Init /\ [][Next]_vars

(* ------------------------------------------------------------ the theorem TLC checks (C16) *)
(* on the design: whenever the design produces a sequence, everything the model knows about    *)
(* the stream is admitted by the table - unless the table restricts a key the design never     *)
(* consults (the named deviation), or forces an asym flag whose value field is unchecked.       *)
(* Under the real table: every header of every base format the design may use decodes to the  *)
(* requested format and is admitted by some column of the level (for admitted AND for          *)
(* non-admitted formats: the latter have no header at all).                                    *)
DesignSound ==
  stage = Done =>
    LET c == out.cfg
        col == Column(out.restr) IN
    IF out.class = "real" THEN RealSound(c)
    ELSE out.design \in {"produced", "either"} =>
           /\ FeaturesMatch(c, col)
           /\ HeaderAccepted(c, col)
           /\ (EtpAccepted(c, col) \/ DeviationUncheckedKey(out.restr))
=============================================================================
