----------------------------- MODULE LevelTables -----------------------------
(* C16 -- the encoder respects any level table it claims to satisfy.                          *)
(*                                                                                            *)
(* A TLC choice machine over SYNTHETIC level definitions: a single-column allowed-value table *)
(* (every key `any`, except one or two restricted keys) together with a data-unit ordering    *)
(* pattern, for each of a few tiny codec configurations.  A completed choice (stage = Done)   *)
(* is handed to the driver, which installs the table as level 1 of the real library           *)
(* (in-process, restored afterwards), runs the real encoder and - if it produced a sequence   *)
(* rather than an UnsatisfiableCodecFeaturesError - the real validator under the same table.  *)
(*                                                                                            *)
(* Outcome space {unsat, produced}.  The property:  produced => validator accepts.            *)
(*                                                                                            *)
(* The DESIGN of the encoder's constraint handling is transcribed here (which keys it         *)
(* consults and how), so that TLC can check the property on the design (DesignSound) and can  *)
(* predict the outcome of every table (compared with the implementation, never an alarm):     *)
(*   - codec_features_to_trivial_level_constraints: the "feature keys" select table columns;  *)
(*   - iter_sequence_headers / SeqHeaderOps!SourceOptions: base format, flags, indices and    *)
(*     values of the sequence header;                                                         *)
(*   - decide_extended_transform_flag: the two asym_transform flags;                          *)
(*   - make_sequence: the ordering pattern (no prediction here: see SymbolRegex / C18, C19);  *)
(*   - every other key is NOT consulted (UncheckedKeys): a named deviation of the design,     *)
(*     DeviationUncheckedKey, under which the property fails already in the model.           *)
EXTENDS SeqHeaderOps

CONSTANTS MaxRestr     \* 1: one restricted key; 2: all pairs of restricted keys

VARIABLES stage, ch, out
vars == <<stage, ch, out>>

(* ------------------------------------------------------------------ the tiny configurations *)
TinyVP(cd, ss) ==
  [Defaults(14) EXCEPT !.frame_width = 8, !.frame_height = 4, !.color_diff_format_index = cd,
                       !.source_sampling = ss, !.frame_rate_numer = 1, !.frame_rate_denom = 1,
                       !.clean_width = 8, !.clean_height = 4,
                       !.luma_offset = 0, !.luma_excursion = 255,
                       !.color_diff_offset = 128, !.color_diff_excursion = 255]

Cfg(name, vp, pcm, profile, wi, wiho, dd, ddho, sx, sy, frag, lossless, pb, cqm) ==
  [name |-> name, vp |-> vp, pcm |-> pcm, profile |-> profile, wavelet_index |-> wi, wavelet_index_ho |-> wiho,
   dwt_depth |-> dd, dwt_depth_ho |-> ddho, slices_x |-> sx, slices_y |-> sy, frag |-> frag,
   lossless |-> lossless, picture_bytes |-> pb, custom_quant_matrix |-> cqm]

Cfgs == << Cfg("hq_lossy",     TinyVP(0, 0), 0, 3, 4, 4, 1, 0, 2, 1, 0, 0, 24, 0),
           Cfg("ld_lossy",     TinyVP(0, 0), 0, 0, 4, 4, 1, 0, 2, 1, 0, 0, 24, 0),
           Cfg("hq_fields",    TinyVP(1, 1), 1, 3, 4, 4, 1, 0, 2, 1, 0, 1, 0, 0),
           Cfg("hq_fragments", TinyVP(0, 0), 0, 3, 4, 4, 1, 0, 2, 1, 1, 0, 24, 0),
           Cfg("hq_asym",      TinyVP(0, 0), 0, 3, 1, 1, 1, 1, 1, 1, 0, 1, 0, 0),
           Cfg("hq_custom_qm", TinyVP(1, 0), 0, 3, 1, 1, 1, 0, 1, 2, 0, 0, 32, 1) >>

FT(c) == [profile |-> c.profile, wavelet_index |-> c.wavelet_index, dwt_depth |-> c.dwt_depth,
          dwt_depth_ho |-> c.dwt_depth_ho, slices_x |-> c.slices_x, slices_y |-> c.slices_y,
          custom_quant_matrix |-> c.custom_quant_matrix,
          \* picture_bytes / number of slices as a reduced fraction (24/2 = 12/1)
          sb_num |-> IF c.profile = 0 THEN c.picture_bytes \div (c.slices_x * c.slices_y) ELSE 0,
          sb_den |-> 1]
FeatureValues(c) == CV(1, c.pcm, c.vp, FT(c))     \* the synthetic level is level 1

(* does the stream carry extended transform parameters / need version 3?  (11.2.2, 12.4.4.1) *)
NeedsV3(c) == c.frag = 1 \/ c.wavelet_index # c.wavelet_index_ho \/ c.dwt_depth_ho # 0

(* --------------------------------------------------------------- keys and restriction kinds *)
FlagKeys  == {"custom_dimensions_flag", "custom_color_diff_format_flag", "custom_scan_format_flag",
              "custom_frame_rate_flag", "custom_pixel_aspect_ratio_flag", "custom_clean_area_flag",
              "custom_signal_range_flag", "custom_color_spec_flag", "custom_color_primaries_flag",
              "custom_color_matrix_flag", "custom_transfer_function_flag",
              "asym_transform_index_flag", "asym_transform_flag"}
IndexKeys == {"frame_rate_index", "pixel_aspect_ratio_index", "custom_signal_range_index", "color_spec_index"}
VideoValueKeys == VPKeys \ {"top_field_first"}
FeatureKeys == {"profile", "picture_coding_mode", "wavelet_index", "dwt_depth", "slices_x", "slices_y",
                "slices_have_same_dimensions", "custom_quant_matrix",
                "slice_bytes_numerator", "slice_bytes_denominator", "slice_prefix_bytes"}
(* keys the encoder design never consults *)
UncheckedKnown   == {"wavelet_index_ho", "dwt_depth_ho", "minor_version"}
UncheckedUnknown == {"major_version", "slice_size_scaler", "quant_matrix_values", "qindex", "total_slice_bytes"}
UncheckedKeys    == UncheckedKnown \cup UncheckedUnknown

AllKeys == FlagKeys \cup IndexKeys \cup VideoValueKeys \cup FeatureKeys \cup UncheckedKeys \cup {"base_video_format"}
KeySeq  == SetToSeq(AllKeys)      \* some fixed enumeration (used to count unordered pairs once)
ASSUME AllKeys \subseteq T_LevelKeys

AnyVS == [any |-> TRUE, rs |-> {}]
SetVS(rs) == [any |-> FALSE, rs |-> rs]
Big == 1000000

KnownValue(key, c) ==
  IF key \in VideoValueKeys THEN c.vp[key]
  ELSE IF key \in DOMAIN FeatureValues(c) THEN FeatureValues(c)[key]
  ELSE IF key = "wavelet_index_ho" THEN c.wavelet_index_ho
  ELSE IF key = "dwt_depth_ho" THEN c.dwt_depth_ho
  ELSE 0     \* minor_version; feature keys of the other profile

Kinds(key) ==
  IF key \in FlagKeys THEN {"true", "false"}
  ELSE IF key \in IndexKeys THEN {"zero", "presets"}
  ELSE IF key = "base_video_format" THEN {"only", "except", "mismatch", "zero"}
  ELSE IF key \in UncheckedUnknown THEN {"zero", "le1", "le3", "ge4", "two"}
  ELSE {"only", "except"}

VS(key, kind, c) ==
  CASE kind = "true"     -> SetVS({<<1, 1>>})
    [] kind = "false"    -> SetVS({<<0, 0>>})
    [] kind = "zero"     -> SetVS({<<0, 0>>})
    [] kind = "presets"  -> SetVS({<<1, 100>>})
    [] kind = "le1"      -> SetVS({<<0, 1>>})
    [] kind = "le3"      -> SetVS({<<0, 3>>})
    [] kind = "two"      -> SetVS({<<2, 2>>})
    [] kind = "ge4"      -> SetVS({<<4, Big>>})
    [] kind = "mismatch" -> SetVS({<<1, 1>>})           \* base format 1 has the other top_field_first
    [] kind = "only"     -> LET v == IF key = "base_video_format" THEN 14 ELSE KnownValue(key, c)
                            IN SetVS({<<v, v>>})
    [] kind = "except"   -> LET v == IF key = "base_video_format" THEN 14 ELSE KnownValue(key, c)
                                top == IF key = "base_video_format" THEN NumBases - 1 ELSE Big
                            IN SetVS((IF v > 0 THEN {<<0, v - 1>>} ELSE {}) \cup {<<v + 1, top>>})

Patterns == {"any", "alternate", "padding_after_each", "aux_at_end", "no_padding_no_aux", "header_once", "no_pictures"}

(* the synthetic column: every key of the real table `any`, level {1}, the chosen restrictions *)
Column(restr) ==
  [k \in T_LevelKeys |-> IF \E r \in restr : r.key = k THEN (CHOOSE r \in restr : r.key = k).vs
                         ELSE IF k = "level" THEN SetVS({<<1, 1>>}) ELSE AnyVS]

(* ------------------------------------------------------------------ design of the encoder *)
(* 1. the feature keys select the columns: with one column, unsat if it does not match *)
FeaturesMatch(c, col) == ColumnMatches(col, FeatureValues(c))

(* 2. the sequence header: some base format allowed by the column (and with the same         *)
(*    top_field_first) must have at least one encoding                                        *)
HeaderBases(c, col) ==
  {b \in Bases : /\ Allowed(col, "base_video_format", b)
                 /\ Len(SourceOptions(Defaults(b), c.vp, col)) > 0}

(* 3. decide_extended_transform_flag: required => TRUE must be allowed; otherwise prefer      *)
(*    FALSE; an empty entry is read as allowing FALSE                                         *)
EtpFlag(col, key, required) ==
  LET s == col[key]
      allowed(v) == IF ~s.any /\ s.rs = {} THEN v = 0 ELSE In(v, s)
  IN IF required THEN (IF allowed(1) THEN 1 ELSE -1)
     ELSE IF allowed(0) THEN 0 ELSE IF allowed(1) THEN 1 ELSE -1
EtpIndexFlag(c, col) == EtpFlag(col, "asym_transform_index_flag", c.wavelet_index # c.wavelet_index_ho)
EtpAsymFlag(c, col)  == EtpFlag(col, "asym_transform_flag", c.dwt_depth_ho # 0)

(* the outcome the design predicts; of the ordering patterns only "no_pictures" cannot be satisfied  *)
(* by a sequence that contains pictures (the regular expressions themselves are concretised by the   *)
(* driver; their semantics is the subject of SymbolRegex / C18, C19)                                 *)
DesignOutcome(c, col, pattern) ==
  IF ~FeaturesMatch(c, col) THEN "unsat"
  ELSE IF ~(\E b \in Bases : Allowed(col, "base_video_format", b) /\ Len(SourceOptions(Defaults(b), c.vp, col)) > 0) THEN "unsat"
  ELSE IF EtpIndexFlag(c, col) = -1 \/ EtpAsymFlag(c, col) = -1 THEN "unsat"
  ELSE IF pattern = "no_pictures" THEN "unsat"
  ELSE "produced"

(* --------------------------------------------- what the validator will say, as far as known *)
(* values of the produced stream that the model knows, for every header encoding the design    *)
(* may choose: all of them are admitted by construction (SourceOptions only yields admitted    *)
(* encodings); the extended transform parameters are only present in version-3 streams.        *)
EtpAccepted(c, col) ==
  NeedsV3(c) =>
    /\ Allowed(col, "asym_transform_index_flag", EtpIndexFlag(c, col))
    /\ (EtpIndexFlag(c, col) = 1 => Allowed(col, "wavelet_index_ho", c.wavelet_index_ho))
    /\ Allowed(col, "asym_transform_flag", EtpAsymFlag(c, col))
    /\ (EtpAsymFlag(c, col) = 1 => Allowed(col, "dwt_depth_ho", c.dwt_depth_ho))

HeaderAccepted(c, col) ==
  \A b \in HeaderBases(c, col) :
    LET hs == SourceOptions(Defaults(b), c.vp, col) IN
    \A t \in 1..Len(hs) :
      /\ DecodeHeader(b, hs[t]) = c.vp
      /\ \A j \in 1..Len(SimpleGroups) : OptAllowed(col, SimpleGroups[j], hs[t][SimpleGroups[j]])
      /\ OptAllowed(col, "cs", hs[t].cs)
      /\ \A j \in 1..3 : OptAllowed(col, ColorParts[j], hs[t][ColorParts[j]])

(* NAMED DEVIATION: the design consults no rule for these keys, so a table that restricts one  *)
(* of them can be violated by a stream the encoder happily produces.                           *)
DeviationUncheckedKey(restr) == \E r \in restr : r.key \in UncheckedKeys

(* asym flags forced TRUE although not required make the encoder write wavelet_index_ho /     *)
(* dwt_depth_ho; those values are not checked against the table either                         *)

(* -------------------------------------------------------------------------- choice machine *)
Done == 5
Init == stage = 1 /\ ch = [cfg |-> 0, restr |-> {}, pattern |-> "any"] /\ out = <<>>

ChooseCfg == /\ stage = 1
             /\ \E i \in 1..Len(Cfgs) : ch' = [ch EXCEPT !.cfg = i]
             /\ stage' = 2 /\ UNCHANGED out

Restriction(i, kind, c) == [key |-> KeySeq[i], kind |-> kind, vs |-> VS(KeySeq[i], kind, c), idx |-> i]

ChooseFirst == /\ stage = 2
               /\ \E i \in 1..Len(KeySeq) : \E kind \in Kinds(KeySeq[i]) :
                    ch' = [ch EXCEPT !.restr = {Restriction(i, kind, Cfgs[ch.cfg])}]
               /\ stage' = 3 /\ UNCHANGED out

(* the second restricted key (a different key; unordered pairs are counted once) *)
ChooseSecond == /\ stage = 3
                /\ \/ ch' = ch
                   \/ /\ MaxRestr >= 2
                      /\ LET first == CHOOSE r \in ch.restr : TRUE IN
                         \E i \in (first.idx + 1)..Len(KeySeq) : \E kind \in Kinds(KeySeq[i]) :
                           ch' = [ch EXCEPT !.restr = @ \cup {Restriction(i, kind, Cfgs[ch.cfg])}]
                /\ stage' = 4 /\ UNCHANGED out

ChoosePattern == /\ stage = 4
                 /\ \E p \in Patterns :
                      \* ordering patterns are combined with single restrictions only
                      /\ (p # "any" => Cardinality(ch.restr) = 1)
                      /\ LET c == Cfgs[ch.cfg]
                             col == Column(ch.restr) IN
                         out' = [cfg |-> c, restr |-> ch.restr, pattern |-> p,
                                 design |-> DesignOutcome(c, col, p),
                                 deviation |-> DeviationUncheckedKey(ch.restr)]
                      /\ ch' = [ch EXCEPT !.pattern = p]
                 /\ stage' = Done

Next == ChooseCfg \/ ChooseFirst \/ ChooseSecond \/ ChoosePattern
Spec == Init /\ [][Next]_vars

(* ------------------------------------------------------------ the theorem TLC checks (C16) *)
(* on the design: whenever the design produces a sequence, everything the model knows about    *)
(* the stream is admitted by the table - unless the table restricts a key the design never     *)
(* consults (the named deviation), or forces an asym flag whose value field is unchecked.       *)
DesignSound ==
  stage = Done =>
    LET c == out.cfg
        col == Column(out.restr) IN
    out.design \in {"produced", "either"} =>
      /\ FeaturesMatch(c, col)
      /\ HeaderAccepted(c, col)
      /\ (EtpAccepted(c, col) \/ DeviationUncheckedKey(out.restr))
=============================================================================
