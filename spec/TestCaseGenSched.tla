--------------------------- MODULE TestCaseGenSched ---------------------------
(* Schedules of the worker commands at COMMAND granularity (the G direction of C24): each   *)
(* command of TestCaseGen is one Start and one End event, at most P commands run at the     *)
(* same time.  TLC enumerates the behaviours (hist is part of the state on purpose: every   *)
(* complete history is one schedule); the driver executes them with the real commands:      *)
(* Start(w) = launch command w, End(w) = wait until command w has exited.                   *)
EXTENDS Integers, Sequences, FiniteSets, TLC

CONSTANTS N,   \* commands 1..N
          P    \* maximal number of simultaneously running commands

VARIABLES started, finished, hist
vars == <<started, finished, hist>>

Init == started = {} /\ finished = {} /\ hist = <<>>

Start(w) == /\ w \notin started
            /\ Cardinality(started \ finished) < P
            /\ started' = started \cup {w}
            /\ hist' = Append(hist, <<"S", w>>)
            /\ UNCHANGED finished

End(w) == /\ w \in started \ finished
          /\ finished' = finished \cup {w}
          /\ hist' = Append(hist, <<"E", w>>)
          /\ UNCHANGED started

Next == \E w \in 1..N : Start(w) \/ End(w)
Spec == Init /\ [][Next]_vars

Complete == finished = 1..N
TypeOK == finished \subseteq started /\ started \subseteq 1..N /\ Cardinality(started \ finished) <= P
\* every command is started exactly once and ended exactly once, End after Start
WellFormed == \A w \in 1..N :
                LET ss == {i \in 1..Len(hist) : hist[i] = <<"S", w>>}
                    es == {i \in 1..Len(hist) : hist[i] = <<"E", w>>} IN
                /\ Cardinality(ss) = (IF w \in started THEN 1 ELSE 0)
                /\ Cardinality(es) = (IF w \in finished THEN 1 ELSE 0)
                /\ \A i \in ss, j \in es : i < j
=============================================================================
