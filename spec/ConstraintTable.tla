--------------------------- MODULE ConstraintTable ---------------------------
(* Constraint tables (vc2_conformance/constraint_table.py) queried the way the bitstream  *)
(* validator does (decoder/assertions.py: assert_level_constraint), property C17.          *)
(*                                                                                         *)
(* A behaviour first builds a table column by column (AddColumn), then checks values one   *)
(* at a time (Check): the value is accepted iff it is in allowed_values_for(T, k, chosen)  *)
(* and is then added to the chosen values; a rejection ends the behaviour (the validator   *)
(* raises ValueNotAllowedInLevel).  Columns may lack keys, cells may be the wildcard, and  *)
(* the empty "catch-all" column is included: the theorems of the property are stated for   *)
(* tables without it, its effect on filter/is_allowed/allowed_values_for is still modelled.*)
(*                                                                                         *)
(* Value sets are objects (ValueSets.tla): the set handed out by allowed_values_for is a   *)
(* new object, not a cell of the table.  Touch models a caller that adds a value to the    *)
(* set it was handed (encoder/pictures.py does so): the addition shows in that set (ret)   *)
(* and the table T -- every cell of it -- is left as it was.                               *)
EXTENDS ConstraintTableOps, TLC

CONSTANTS Keys, CellVals, AskVals, MaxCols, MaxLen

Wide == (0 - 1)..3

Cells   == {AnyDen} \cup {[any |-> FALSE, s |-> S] : S \in SUBSET CellVals}
Columns == UNION {[K -> Cells] : K \in SUBSET Keys}

VARIABLES T,      \* the table
          vals,   \* values chosen (accepted) so far
          fresh,  \* every Check so far named a key not chosen before
          res,    \* "build" | "ok" | "rejected"
          obs,    \* spec's prediction of what the driver observes for the last Check / Touch
          ret,    \* the set handed out by the last allowed_values_for query (an object of the caller's)
          pre, inp, hist

vars == <<T, vals, fresh, res, obs, ret, pre, inp, hist>>

NoObs == [acc |-> TRUE, comb |-> TRUE, any |-> FALSE, allowed |-> {}, filt |-> {}, nocatch |-> TRUE, fresh |-> TRUE]

ProjectT(t) == [i \in 1..Len(t) |-> [k \in DOMAIN t[i] |-> [any |-> t[i][k].any, m |-> DenIn(t[i][k], Wide)]]]

Init == /\ T = <<>> /\ vals = <<>> /\ fresh = TRUE /\ res = "build" /\ obs = NoObs /\ ret = EmptyDen
        /\ pre = <<>> /\ inp = [op |-> "init"] /\ hist = <<>>

AddColumn == \E c \in Columns :
  /\ res = "build" /\ Len(T) < MaxCols /\ Len(hist) < MaxLen
  /\ T' = Append(T, c)
  /\ UNCHANGED <<vals, fresh, res, obs, ret>>
  /\ pre' = vals /\ inp' = [op |-> "col", c |-> c] /\ hist' = Append(hist, inp')

Check == \E k \in Keys, v \in AskVals :
  /\ res \notin {"rejected", "touched"} /\ Len(hist) < MaxLen
  /\ LET allowed == AllowedValuesFor(T, k, vals)
         acc     == DenHas(allowed, v)
         ext     == Extend(vals, k, v)
     IN /\ vals' = IF acc THEN ext ELSE vals
        /\ res'  = IF acc THEN "ok" ELSE "rejected"
        /\ fresh' = (fresh /\ k \notin DOMAIN vals)
        /\ ret' = allowed
        /\ obs' = [acc |-> acc, comb |-> Allowed(T, ext), any |-> allowed.any,
                   allowed |-> DenIn(allowed, Wide), filt |-> FilterIdx(T, ext),
                   nocatch |-> NoCatchAll(T), fresh |-> fresh']
  /\ UNCHANGED T
  /\ pre' = vals /\ inp' = [op |-> "check", k |-> k, v |-> v] /\ hist' = Append(hist, inp')

\* the caller adds w to the set the last query (key inp.k, chosen values pre) handed out; ends the behaviour
Touch == \E w \in AskVals :
  /\ inp.op = "check" /\ Len(hist) < MaxLen
  /\ ret' = DenAddValue(ret, w)
  /\ res' = "touched"
  /\ UNCHANGED <<T, vals, fresh>>
  /\ obs' = [tab |-> ProjectT(T), ret |-> DenIn(ret', Wide), retany |-> ret'.any]
  /\ pre' = vals /\ inp' = [op |-> "touch", w |-> w, k |-> inp.k, chosen |-> pre] /\ hist' = Append(hist, inp')

Next == AddColumn \/ Check \/ Touch
Spec == Init /\ [][Next]_vars

(* --- C17, second sentence ------------------------------------------------------------- *)
\* v is among the allowed values for k given the chosen values  <=>  adding it is an allowed combination
Equivalence == (inp.op = "check" /\ obs.nocatch /\ inp.k \notin DOMAIN pre) => (obs.acc = obs.comb)
\* one-at-a-time checking accepts exactly the sequences whose every prefix is an allowed combination:
\* inductively, every accepted state is an allowed combination and a rejection happens exactly when
\* the extended combination is not allowed
Incremental == (NoCatchAll(T) /\ fresh /\ inp.op # "touch") =>
                 /\ res = "ok" => Allowed(T, vals)
                 /\ res = "rejected" => ~Allowed(T, Extend(pre, inp.k, inp.v))
\* with nothing chosen everything is compatible with a non-empty table
EmptyAssignment == (res = "build" /\ Len(T) > 0) => Allowed(T, <<>>)

\* the set handed to the caller holds what was allowed plus what the caller added, nothing of it went into T
ResultIsCallers == inp.op = "touch" =>
  /\ DenHas(ret, inp.w)
  /\ ret.any \/ ret.s = AllowedValuesFor(T, inp.k, inp.chosen).s \cup {inp.w}

View == <<T, vals, fresh, res, pre, inp>>
=============================================================================
