--------------------------- MODULE ConstraintTable ---------------------------
(* Constraint tables (vc2_conformance/constraint_table.py) queried the way the bitstream  *)
(* validator does (decoder/assertions.py: assert_level_constraint), property C17.          *)
(*                                                                                         *)
(* A behaviour first builds a table column by column (AddColumn), then checks values one   *)
(* at a time (Check): the value is accepted iff it is in allowed_values_for(T, k, chosen)  *)
(* and is then added to the chosen values; a rejection ends the behaviour (the validator   *)
(* raises ValueNotAllowedInLevel).  Columns may lack keys, cells may be the wildcard, and  *)
(* the empty "catch-all" column is included: the theorems of the property are stated for   *)
(* tables without it, its effect on filter/is_allowed/allowed_values_for is still modelled.*)
EXTENDS ConstraintTableOps, TLC

CONSTANTS Keys, CellVals, AskVals, MaxCols, MaxLen

Wide == (0 - 1)..3

Cells   == {AnyDen} \cup {[any |-> FALSE, s |-> S] : S \in SUBSET CellVals}
Columns == UNION {[K -> Cells] : K \in SUBSET Keys}

VARIABLES T,      \* the table
          vals,   \* values chosen (accepted) so far
          fresh,  \* every Check so far named a key not chosen before
          res,    \* "build" | "ok" | "rejected"
          obs,    \* spec's prediction of what the driver observes for the last Check
          pre, inp, hist

vars == <<T, vals, fresh, res, obs, pre, inp, hist>>

NoObs == [acc |-> TRUE, comb |-> TRUE, any |-> FALSE, allowed |-> {}, filt |-> {}, nocatch |-> TRUE, fresh |-> TRUE]

Init == /\ T = <<>> /\ vals = <<>> /\ fresh = TRUE /\ res = "build" /\ obs = NoObs
        /\ pre = <<>> /\ inp = [op |-> "init"] /\ hist = <<>>

AddColumn == \E c \in Columns :
  /\ res = "build" /\ Len(T) < MaxCols /\ Len(hist) < MaxLen
  /\ T' = Append(T, c)
  /\ UNCHANGED <<vals, fresh, res, obs>>
  /\ pre' = vals /\ inp' = [op |-> "col", c |-> c] /\ hist' = Append(hist, inp')

Check == \E k \in Keys, v \in AskVals :
  /\ res # "rejected" /\ Len(hist) < MaxLen
  /\ LET allowed == AllowedValuesFor(T, k, vals)
         acc     == DenHas(allowed, v)
         ext     == Extend(vals, k, v)
     IN /\ vals' = IF acc THEN ext ELSE vals
        /\ res'  = IF acc THEN "ok" ELSE "rejected"
        /\ fresh' = (fresh /\ k \notin DOMAIN vals)
        /\ obs' = [acc |-> acc, comb |-> Allowed(T, ext), any |-> allowed.any,
                   allowed |-> DenIn(allowed, Wide), filt |-> FilterIdx(T, ext),
                   nocatch |-> NoCatchAll(T), fresh |-> fresh']
  /\ UNCHANGED T
  /\ pre' = vals /\ inp' = [op |-> "check", k |-> k, v |-> v] /\ hist' = Append(hist, inp')

Next == AddColumn \/ Check
Spec == Init /\ [][Next]_vars

(* --- C17, second sentence ------------------------------------------------------------- *)
\* v is among the allowed values for k given the chosen values  <=>  adding it is an allowed combination
Equivalence == (inp.op = "check" /\ obs.nocatch /\ inp.k \notin DOMAIN pre) => (obs.acc = obs.comb)
\* one-at-a-time checking accepts exactly the sequences whose every prefix is an allowed combination:
\* inductively, every accepted state is an allowed combination and a rejection happens exactly when
\* the extended combination is not allowed
Incremental == (NoCatchAll(T) /\ fresh) =>
                 /\ res = "ok" => Allowed(T, vals)
                 /\ res = "rejected" => ~Allowed(T, Extend(pre, inp.k, inp.v))
\* with nothing chosen everything is compatible with a non-empty table
EmptyAssignment == (res = "build" /\ Len(T) > 0) => Allowed(T, <<>>)

View == <<T, vals, fresh, res, pre, inp>>
=============================================================================
