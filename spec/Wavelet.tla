------------------------------- MODULE Wavelet -------------------------------
(* Forward and inverse wavelet transform as the codec runs them (property C11): the         *)
(* transform parameters pick the two filters and the two depths, the encoder pads the       *)
(* picture (dwt_pad_addition) and analyses it (dwt), the decoder synthesises (idwt) and     *)
(* removes the padding (idwt_pad_removal).  TLC explores every picture of the box for       *)
(* every configuration of the box and checks exact reconstruction, per stage and composed,  *)
(* and that the subband shapes are those of SliceGeometryOps.                               *)
(* Root module at run time: a generated WaveletMC extends this module and the generated     *)
(* filter tables (CONSTANT Filters <- TableFilters).                                        *)
(* This module works on ONE component array; the state-level entry points (three components *)
(* with independent luma / colour-difference sizes under one set of transform parameters:   *)
(* forward_wavelet_transform, picture_encode, inverse_wavelet_transform, picture_decode)    *)
(* are modelled by WaveletPicture.tla on top of the same WaveletOps operators.              *)
EXTENDS WaveletOps

CONSTANTS FilterPairs,   \* set of <<wavelet_index, wavelet_index_ho>>
          Depths,        \* set of <<dwt_depth, dwt_depth_ho>>
          Sizes,         \* set of <<width, height>>
          Vals           \* sample values

VARIABLES stage,  \* "start" | "params" | "picture" | "encoded" | "decoded"
          f, fho, d, dho,
          pic,    \* the picture (sequence of rows)
          co,     \* coefficient data
          rec     \* decoded picture

vars == <<stage, f, fho, d, dho, pic, co, rec>>

Init == stage = "start" /\ f = 0 /\ fho = 0 /\ d = 0 /\ dho = 0 /\ pic = <<>> /\ co = <<>> /\ rec = <<>>

TransformParameters(p, q) ==
  /\ stage = "start" /\ f' = p[1] /\ fho' = p[2] /\ d' = q[1] /\ dho' = q[2] /\ stage' = "params"
  /\ UNCHANGED <<pic, co, rec>>
Picture(s, a) == /\ stage = "params" /\ pic' = a /\ stage' = "picture" /\ UNCHANGED <<f, fho, d, dho, co, rec>>
PictureEncode == /\ stage = "picture" /\ co' = Encode(pic, f, fho, d, dho) /\ stage' = "encoded"
                 /\ UNCHANGED <<f, fho, d, dho, pic, rec>>
PictureDecode == /\ stage = "encoded"
                 /\ rec' = Decode(co, Width(pic), Height(pic), f, fho, d, dho) /\ stage' = "decoded"
                 /\ UNCHANGED <<f, fho, d, dho, pic, co>>

Next == \/ \E p \in FilterPairs, q \in Depths : TransformParameters(p, q)
        \/ \E s \in Sizes : \E a \in [1..s[2] -> [1..s[1] -> Vals]] : Picture(s, a)
        \/ PictureEncode
        \/ PictureDecode

Spec == Init /\ [][Next]_vars

(* ------------------------------ C11 ----------------------------------------------------- *)
PerfectReconstruction == stage = "decoded" => Reconstructs(pic, rec)

ShapesMatchSliceGeometry ==
  stage \in {"encoded", "decoded"} =>
    /\ DOMAIN co = Levels(d, dho)
    /\ \A n \in Levels(d, dho) :
         /\ DOMAIN co[n] = (IF n = 0 THEN {"DC"} ELSE BandNames(n, d, dho))
         /\ \A b \in DOMAIN co[n] :
              /\ Width(co[n][b]) = SubbandWidth(Width(pic), d, dho, n)
              /\ Height(co[n][b]) = SubbandHeight(Height(pic), d, dho, n)

(* per stage and per 1-D transform, on the rows of the padded picture (even length) *)
PaddedRows == LET pp == Pad(pic, 2 * ((Width(pic) + 1) \div 2), Height(pic)) IN {pp[y] : y \in 1..Height(pp)}
StageInverts ==
  stage = "picture" =>
    \A r \in PaddedRows : \A k \in 1..Len(Filters[f].stages) :
      LET st == Filters[f].stages[k] IN
      /\ Lift(Lift(r, st, st.type), st, SwapType(st.type)) = r
      /\ Lift(Lift(r, st, SwapType(st.type)), st, st.type) = r
OneDInverts ==
  stage = "picture" => \A r \in PaddedRows : Synth1D(Analyse1D(r, f), f) = r /\ Analyse1D(Synth1D(r, f), f) = r

(* G direction: one representative picture per configuration and size *)
ConfigView == <<stage, f, fho, d, dho, Width(pic), Height(pic)>>
=============================================================================
