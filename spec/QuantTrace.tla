------------------------------ MODULE QuantTrace ------------------------------
(* Validation of values recorded from vc2_conformance/pseudocode/quantization.py and the    *)
(* constant MINIMUM_DISTINCT_QINDEX of test_cases/decoder/lossless_quantization.py (C12).   *)
(* Log lines:                                                                               *)
(*  ev = "factors":  for index 0..n: quant_factor, quant_offset, inverse_quant(1, index)     *)
(*                   as limbs; `min` = MINIMUM_DISTINCT_QINDEX                              *)
(*  ev = "quant":    one index i <= 115, its recorded quant_factor `f` (plain integer),      *)
(*                   coefficients xs, qs = forward_quant(x, i), rs = inverse_quant(q, i)     *)
(*  ev = "quantbig": the same with every number as a signed limb record (any index/size)     *)
(*  ev = "matrix":   a quantisation matrix's entries ms, the qindex chosen for it by          *)
(*                   compute_qindex_with_distinct_quant_factors and inverse_quant(1, qindex-m)*)
(* Alarm clauses = the statement of C12 evaluated on the recorded numbers.  Everything else  *)
(* the design predicts (the exact values) is compared and reported with alarm = FALSE.       *)
EXTENDS QuantisationOps, BigNat, Json, IOUtils, TLC, TLCExt

Log == ndJsonDeserialize(IOEnv.TRACE_FILE)

VARIABLES l, bad
tvars == <<l, bad>>

Verdict(c, a, at) == [c |-> c, alarm |-> a, at |-> at]
Idx(S) == IF S = {} THEN -1 ELSE CHOOSE k \in S : \A j \in S : k <= j     \* least element

(* ------------------------------- factors ------------------------------------------------ *)
BIncreasingFrom(s, from) ==          \* s[k] belongs to index k-1
  {k \in 1..(Len(s) - 1) : (k - 1 >= from) /\ ~BLt(s[k], s[k + 1])}

(* design value of quant_factor(i), verified as a floor quotient in limb arithmetic *)
BIsQF(f, i) ==
  LET b == BPow2(i \div 4) IN
  CASE i % 4 = 0 -> BEq(f, BMulSmall(b, 4))
    [] i % 4 = 1 -> BIsFloorDiv(f, BAdd(BMul(BFromNat(503829), b), BFromNat(52958)), BFromNat(105917))
    [] i % 4 = 2 -> BIsFloorDiv(f, BAdd(BMul(BFromNat(665857), b), BFromNat(58854)), BFromNat(117708))
    [] OTHER     -> BIsFloorDiv(f, BAdd(BMul(BFromNat(440253), b), BFromNat(32722)), BFromNat(65444))
BIsQO(o, f, i) == IF i = 0 THEN BEq(o, <<1>>) ELSE IF i = 1 THEN BEq(o, <<2>>)
                  ELSE BIsFloorDiv(o, BAdd(f, <<1>>), <<2>>)
BIsIq1(v, f, o) == BIsFloorDiv(v, BAdd(BAdd(f, o), <<2>>), <<4>>)

FactorsClause(e) ==
  LET n == Len(e.qf)
      notInc == BIncreasingFrom(e.qf, 0)
      from == IF e.min < 7 THEN e.min ELSE 7
      notDist == BIncreasingFrom(e.iq1, from)
      offSpec == {k \in 1..n : ~(BIsQF(e.qf[k], k - 1) /\ BIsQO(e.qo[k], e.qf[k], k - 1)
                                 /\ BIsIq1(e.iq1[k], e.qf[k], e.qo[k]))} IN
  IF notInc # {} THEN Verdict("FactorsIncrease", TRUE, Idx(notInc) - 1)
  ELSE IF notDist # {} THEN Verdict("DistinctFromMinimum", TRUE, Idx(notDist) - 1)
  ELSE IF offSpec # {} THEN Verdict("SpecFormula", FALSE, Idx(offSpec) - 1)
  ELSE IF e.min # 7 THEN Verdict("MinimumIsNot7", FALSE, e.min)
  ELSE Verdict("ok", FALSE, -1)

(* ------------------------------- quant (plain integers) --------------------------------- *)
QuantClause(e) ==
  LET n == Len(e.xs)
      K == 1..n
      sgn == {k \in K : ~SignKept(e.xs[k], e.rs[k])}
      stp == {k \in K : ~WithinStep(e.xs[k], e.rs[k], e.f)}
      ll  == {k \in K : ~LosslessAt0(e.i, e.xs[k], e.rs[k])}
      spc == IF e.i <= MaxPlainQI
             THEN {k \in K : ~(e.qs[k] = Fq(e.xs[k], e.i) /\ e.rs[k] = Iq(e.qs[k], e.i))}
             ELSE {} IN
  IF Len(e.qs) # n \/ Len(e.rs) # n THEN Verdict("Malformed", TRUE, -1)
  ELSE IF sgn # {} THEN Verdict("SignKept", TRUE, Idx(sgn))
  ELSE IF ll # {} THEN Verdict("IndexZeroExact", TRUE, Idx(ll))
  ELSE IF stp # {} THEN Verdict("WithinOneStep", TRUE, Idx(stp))
  ELSE IF e.i <= MaxPlainQI /\ e.f # QF(e.i) THEN Verdict("SpecFormula", FALSE, -1)
  ELSE IF spc # {} THEN Verdict("SpecFormula", FALSE, Idx(spc))
  ELSE Verdict("ok", FALSE, -1)

(* ------------------------------- quant (limbs) ------------------------------------------ *)
BSignKept(x, r) == r.s = 0 \/ r.s = x.s
BWithinStep(x, r, f) == BLt(BMulSmall(SAbsDiff(r, x), 4), f)
(* q = sgn(x) * floor(4|x| / f);  |r| = floor((|q| f + o + 2) / 4) unless q = 0 *)
BSpecAgrees(x, q, r, f, o) ==
  /\ BIsFloorDiv(q.m, BMulSmall(x.m, 4), f)
  /\ (q.s = 0 \/ q.s = x.s)
  /\ IF q.s = 0 THEN r.s = 0
     ELSE r.s = q.s /\ BIsFloorDiv(r.m, BAdd(BAdd(BMul(q.m, f), o), <<2>>), <<4>>)

QuantBigClause(e) ==
  LET n == Len(e.xs)
      K == 1..n
      mal == {k \in K : ~(SWellFormed(e.xs[k]) /\ SWellFormed(e.qs[k]) /\ SWellFormed(e.rs[k]))}
      sgn == {k \in K : ~BSignKept(e.xs[k], e.rs[k])}
      stp == {k \in K : ~BWithinStep(e.xs[k], e.rs[k], e.f)}
      ll  == {k \in K : e.i = 0 /\ ~SEq(e.xs[k], e.rs[k])}
      spc == {k \in K : ~BSpecAgrees(e.xs[k], e.qs[k], e.rs[k], e.f, e.o)} IN
  IF Len(e.qs) # n \/ Len(e.rs) # n \/ mal # {} THEN Verdict("Malformed", TRUE, Idx(mal))
  ELSE IF sgn # {} THEN Verdict("SignKept", TRUE, Idx(sgn))
  ELSE IF ll # {} THEN Verdict("IndexZeroExact", TRUE, Idx(ll))
  ELSE IF stp # {} THEN Verdict("WithinOneStep", TRUE, Idx(stp))
  ELSE IF ~(BIsQF(e.f, e.i) /\ BIsQO(e.o, e.f, e.i)) THEN Verdict("SpecFormula", FALSE, -1)
  ELSE IF spc # {} THEN Verdict("SpecFormula", FALSE, Idx(spc))
  ELSE Verdict("ok", FALSE, -1)

(* ------------------------------- matrix (reliance of the test case; never an alarm) ----- *)
MatrixClause(e) ==
  LET K == 1..Len(e.ms) IN
  IF \E j, k \in K : e.ms[j] # e.ms[k] /\ BEq(e.iq1[j], e.iq1[k]) THEN Verdict("MatrixNotDistinct", FALSE, -1)
  ELSE IF \E k \in K : EffectiveIndex(e.qindex, e.ms[k]) < e.min THEN Verdict("MatrixBelowMinimum", FALSE, -1)
  ELSE Verdict("ok", FALSE, -1)

Clause(e) == CASE e.ev = "factors" -> FactorsClause(e)
               [] e.ev = "quant" -> QuantClause(e)
               [] e.ev = "quantbig" -> QuantBigClause(e)
               [] e.ev = "matrix" -> MatrixClause(e)
               [] OTHER -> Verdict("UnknownEvent", TRUE, -1)

TraceInit == l = 1 /\ bad = <<>>
TraceNext ==
  /\ l <= Len(Log)
  /\ l' = l + 1
  /\ LET e == Log[l]
         v == Clause(e) IN
     bad' = IF v.c = "ok" THEN bad
            ELSE Append(bad, [tid |-> e.tid, line |-> l, clause |-> v.c, alarm |-> v.alarm, at |-> v.at])
TraceSpec == TraceInit /\ [][TraceNext]_tvars

Report == l = Len(Log) + 1 => PrintT(<<"BAD", ToJson(bad)>>)
AllConsumed == TLCGet("stats").diameter - 1 = Len(Log)
=============================================================================
