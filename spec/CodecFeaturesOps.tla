-------------------------- MODULE CodecFeaturesOps --------------------------
(* Documented domains of the codec-features CSV (vc2_conformance/codec_features.py,        *)
(* docs user guide "Defining codec features"), property C28.  Shared by                     *)
(* CodecFeaturesCsv.tla (mutation model) and CodecFeaturesCsvTrace.tla (judging results).  *)
EXTENDS Integers, Sequences, FiniteSets

\* rows holding an enumerated value (index or member name): field -> enumeration type
EnumType == [level |-> "Levels", profile |-> "Profiles", picture_coding_mode |-> "PictureCodingModes",
             wavelet_index |-> "WaveletFilters", wavelet_index_ho |-> "WaveletFilters"]
VpEnumType == [color_diff_format_index |-> "ColorDifferenceSamplingFormats",
               source_sampling |-> "SourceSamplingModes",
               color_primaries_index |-> "PresetColorPrimaries",
               color_matrix_index |-> "PresetColorMatrices",
               transfer_function_index |-> "PresetTransferFunctions"]
\* rows holding an integer with a documented minimum
IntMin == [dwt_depth |-> 0, dwt_depth_ho |-> 0, slices_x |-> 1, slices_y |-> 1, fragment_slice_count |-> 0]
VpIntMin == [frame_width |-> 1, frame_height |-> 1, frame_rate_numer |-> 1, frame_rate_denom |-> 1,
             pixel_aspect_ratio_numer |-> 1, pixel_aspect_ratio_denom |-> 1,
             clean_width |-> 0, clean_height |-> 0, left_offset |-> 0, top_offset |-> 0,
             luma_offset |-> 0, luma_excursion |-> 1, color_diff_offset |-> 0, color_diff_excursion |-> 1]
PictureBytesMin == 1

EnumFields   == DOMAIN EnumType \cup {"base_video_format"}
VpEnumFields == DOMAIN VpEnumType
IntFields    == DOMAIN IntMin
VpIntFields  == DOMAIN VpIntMin
BoolFields   == {"lossless"}
VpBoolFields == {"top_field_first"}
\* video-format rows may say "default" (value of the base video format); so may the matrix
Defaultable  == VpEnumFields \cup VpIntFields \cup VpBoolFields \cup {"quantization_matrix"}
AllFields    == {"name", "picture_bytes", "quantization_matrix"} \cup EnumFields \cup VpEnumFields
                \cup IntFields \cup VpIntFields \cup BoolFields \cup VpBoolFields
MinOf(f) == IF f \in IntFields THEN IntMin[f] ELSE IF f \in VpIntFields THEN VpIntMin[f] ELSE PictureBytesMin

\* number of values of a custom quantisation matrix for the declared transform depths (12.4.5.3)
QmLength(d, ho) == 1 + ho + 3 * d
\* orientations present at a level of the matrix
QmOrients(level, d, ho) ==
  IF level = 0 THEN (IF ho = 0 THEN {"LL"} ELSE {"L"})
  ELSE IF level <= ho THEN {"H"}
  ELSE {"HL", "LH", "HH"}
=============================================================================
