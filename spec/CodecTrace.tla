----------------------------- MODULE CodecTrace -----------------------------
(* Judges recorded runs  make_sequence -> autofill_and_serialise_stream -> validator/decoder   *)
(* (and, for C09, re-packed streams -> validator/decoder) against CodecOps.                      *)
(* One log line per run (tid); the pictures delivered to _output_picture_callback and the data  *)
(* units read back from the serialised bytes are arrays inside the line.                        *)
(*                                                                                               *)
(* Verdicts are total: every line is judged against every clause; for each property the first   *)
(* failing clause is reported.  Clause names carry the property they belong to: the C03 driver   *)
(* alarms on "C03.*" only, C04 on "C04.*", C09 on "C09.*" (rule R1); "S.*" clauses are what the  *)
(* specification predicts beyond the properties (logged as spec_disagreements, never alarms).    *)
(*                                                                                               *)
(* Fields of a line:                                                                             *)
(*  cfg      the configuration record produced by CodecConfig (TLC), echoed by the driver        *)
(*  kind     "encoder" (stream made by the encoder) | "repacked" (coefficients replaced, C09)   *)
(*  enc      "ok" | "refused" (an UnsatisfiableCodecFeaturesError) | "crash"                    *)
(*  ser      "ok" | "crash"        (autofill_and_serialise_stream)                               *)
(*  verdict  "accepted" | "rejected" (ConformanceError) | "crash"                                *)
(*  npics    number of input pictures                                                            *)
(*  units    data units read back from the bytes: [k, cnt, pn = [hi, lo]]                        *)
(*  nslices  slices_x * slices_y read back from the bytes                                        *)
(*  version, etp (one flag per transform_parameters block), presets (indices in the header)      *)
(*  q0       per coded picture: every slice has qindex 0                                         *)
(*  pics     per callback: pn, after (number of data units parsed when it fired), dimensions,    *)
(*           min/max per component (clamped to +-2^30 by the driver), allint, rect, vpeq, pcmeq,  *)
(*           equal (samples identical to the input picture with the same index), hdr = the        *)
(*           video parameters and coding mode given to the callback (w, h, cdf, pcm, le, ce)      *)
EXTENDS CodecOps, Json, IOUtils, TLC, TLCExt

Log == ndJsonDeserialize(IOEnv.TRACE_FILE)

VARIABLES l, bad
tvars == <<l, bad>>

Range(s) == {s[i] : i \in 1..Len(s)}
All(s, P(_)) == \A i \in 1..Len(s) : P(s[i])

(* ------------------------------------------------------------------ observed stream -- *)
IsPicStart(u) == u.k = "PIC" \/ (u.k = "FRAG" /\ u.cnt = 0)
\* indices (in the unit list) at which a picture is complete: a PIC unit, or the fragment that
\* brings the slices received since the last FRAG(0) up to nslices
RECURSIVE Completions(_, _, _, _)
Completions(units, i, got, n) ==
  IF i > Len(units) THEN <<>>
  ELSE LET u == units[i] IN
       IF u.k = "PIC" THEN <<i>> \o Completions(units, i + 1, 0, n)
       ELSE IF u.k = "FRAG" /\ u.cnt = 0 THEN Completions(units, i + 1, 0, n)
       ELSE IF u.k = "FRAG" THEN
            IF got + u.cnt = n THEN <<i>> \o Completions(units, i + 1, 0, n)
            ELSE Completions(units, i + 1, got + u.cnt, n)
       ELSE Completions(units, i + 1, got, n)
CodedNumbers(units) == LET s == SelectSeq(units, IsPicStart) IN [i \in 1..Len(s) |-> s[i].pn]
Kinds(units) == [i \in 1..Len(units) |-> [k |-> units[i].k, cnt |-> units[i].cnt]]
ExpectedKinds(c) == LET u == ExpectedUnits(c) IN [i \in 1..Len(u) |-> [k |-> u[i].k, cnt |-> u[i].cnt]]

(* ------------------------------------------------------------------ C03 -------------- *)
C03Clause(e) ==
  IF e.kind # "encoder" \/ e.enc # "ok" THEN "na"
  ELSE IF e.ser # "ok" THEN "C03.Serialises"
  ELSE IF e.verdict # "accepted" THEN "C03.ValidatorAccepts"
  ELSE IF Len(e.pics) # e.npics THEN "C03.OnePicturePerInput"
  ELSE IF ~All(e.pics, LAMBDA p : p.vpeq) THEN "C03.VideoParameters"
  ELSE IF ~All(e.pics, LAMBDA p : p.pcmeq) THEN "C03.PictureCodingMode"
  ELSE IF \E i \in 1..e.npics : e.pics[i].pn # ExpectedNumbers(e.cfg)[i] THEN "C03.PictureNumbers"
  ELSE "ok"

(* ------------------------------------------------------------------ C04 -------------- *)
\* judged on every decoded picture that has an input counterpart; missing pictures are C03's
C04Applies(e, i) == i <= Len(e.q0) /\ ExactExpected(e.cfg, e.q0[i])
C04Clause(e) ==
  IF e.kind # "encoder" \/ e.enc # "ok" \/ e.ser # "ok" THEN "na"
  ELSE IF \E i \in 1..Min(Len(e.pics), e.npics) : C04Applies(e, i) /\ ~e.pics[i].equal THEN "C04.Exact"
  ELSE IF \E i \in 1..Min(Len(e.pics), e.npics) : C04Applies(e, i) THEN "ok"
  ELSE "na"

(* ------------------------------------------------------------------ C09 -------------- *)
DimsOK(p) == LET dm == Dims(p.hdr.w, p.hdr.h, p.hdr.cdf, p.hdr.pcm) IN
             p.rect /\ p.yw = dm.yw /\ p.yh = dm.yh /\ p.cw = dm.cw /\ p.ch = dm.ch
RangeOK(p) == /\ p.allint
              /\ p.ymin >= 0 /\ p.ymax <= 2^DepthOf(p.hdr.le) - 1
              /\ p.cmin >= 0 /\ p.cmax <= 2^DepthOf(p.hdr.ce) - 1
C09Clause(e) ==
  IF e.ser # "ok" \/ e.verdict # "accepted" THEN "na"       \* the property is about accepted streams
  ELSE LET done == Completions(e.units, 1, 0, e.nslices)
           nums == CodedNumbers(e.units) IN
       IF Len(e.pics) # Len(done) THEN "C09.OneOutputPerPicture"
       ELSE IF \E i \in 1..Len(done) : e.pics[i].after # done[i] THEN "C09.OutputAtCompletion"
       ELSE IF ~All(e.pics, DimsOK) THEN "C09.Dimensions"
       ELSE IF ~All(e.pics, RangeOK) THEN "C09.SampleRange"
       ELSE IF \E i \in 1..Len(e.pics) : i > Len(nums) \/ e.pics[i].pn # nums[i] THEN "C09.PictureNumber"
       ELSE IF Len(e.pics) = 0 THEN "na"
       ELSE "ok"

(* ------------------------------------------------------------------ spec-only -------- *)
SpecClause(e) ==
  IF e.kind # "encoder" THEN "na"
  ELSE IF Valid(e.cfg) /\ e.enc # "ok" THEN "S.EncoderAccepts"
  ELSE IF e.enc # "ok" \/ e.ser # "ok" THEN "na"
  ELSE IF Kinds(e.units) # ExpectedKinds(e.cfg) THEN "S.Units"
  ELSE IF e.version # MinVersion(e.cfg, e.presets) THEN "S.Version"
  ELSE IF \E i \in 1..Len(e.etp) : e.etp[i] # (e.version >= 3) THEN "S.ExtendedTransformParameters"
  ELSE IF PredictAllQ0(e.cfg) /\ ~All(e.q0, LAMBDA b : b) THEN "S.BudgetSufficientForQ0"
  ELSE IF e.verdict = "accepted" /\ \E i \in 1..Len(e.pics) :
            LET dm == CfgDims(e.cfg) IN e.pics[i].yw # dm.yw \/ e.pics[i].yh # dm.yh
                                        \/ e.pics[i].cw # dm.cw \/ e.pics[i].ch # dm.ch
       THEN "S.ConfiguredDimensions"
  ELSE "ok"

SpecOnly == {"S.EncoderAccepts", "S.Units", "S.Version", "S.ExtendedTransformParameters",
             "S.BudgetSufficientForQ0", "S.ConfiguredDimensions"}
Verdicts(e, line) ==
  LET cs == SelectSeq(<<C03Clause(e), C04Clause(e), C09Clause(e), SpecClause(e)>>,
                      LAMBDA c : c \notin {"ok", "na"}) IN
  [i \in 1..Len(cs) |-> [tid |-> e.tid, line |-> line, clause |-> cs[i], alarm |-> (cs[i] \notin SpecOnly)]]
\* how many lines each clause family was actually evaluated on (not "na") -- for the vacuity check
B(x) == IF x THEN 1 ELSE 0

VARIABLE cnt
TraceInit == l = 1 /\ bad = <<>> /\ cnt = [c03 |-> 0, c04 |-> 0, c09 |-> 0]
TraceNext ==
  /\ l <= Len(Log)
  /\ l' = l + 1
  /\ LET e == Log[l] IN
     /\ bad' = bad \o Verdicts(e, l)
     /\ cnt' = [c03 |-> cnt.c03 + B(C03Clause(e) # "na"), c04 |-> cnt.c04 + B(C04Clause(e) # "na"),
                c09 |-> cnt.c09 + B(C09Clause(e) # "na")]
TraceSpec == TraceInit /\ [][TraceNext]_<<l, bad, cnt>>

Report == l = Len(Log) + 1 => PrintT(<<"APPLIED", ToJson(cnt)>>) /\ PrintT(<<"BAD", ToJson(bad)>>)
AllConsumed == TLCGet("stats").diameter - 1 = Len(Log)
=============================================================================
