---------------------------- MODULE RawFileProc ----------------------------
(* Raw picture files inside ONE operating-system process (property C23).  RawFile.tla     *)
(* explores configurations one by one, each from a fresh state with pictures given as     *)
(* values.  Here the caller holds picture OBJECTS (a container of some kind that denotes  *)
(* a picture value), hands the same object to the writer several times, looks at it again *)
(* afterwards, and uses a SEQUENCE of formats in the one process:                          *)
(*   used  -- the formats used earlier in this process (complete uses, oldest first)      *)
(*   obj   -- the caller's live picture object: container kind k, the value v it denotes  *)
(*            (1 = the picture as created, 2 = a variant of it that differs in one luma   *)
(*            and one C2 sample, 3 = neither: garbage), nw = how often it was written     *)
(*   files -- per file name what it holds: value v (0 = not written), by which write of   *)
(*            the object (nth) and with the sample layout of which depths (lay)           *)
(* The statement of C23 in this setting: Write is a function of the VALUES of its         *)
(* arguments and has no effect but the file (the caller's objects denote afterwards what   *)
(* they denoted before: ObjectsDenoteTheirValue / WritePure -- an OthersUnchanged frame    *)
(* condition), every file reads back as the value that was written (ReadsBackWhatWasWritten) *)
(* in the layout of ITS format (FileLayoutOfOwnFormat), and none of this depends on "used" *)
(* (no outcome below mentions it).  The driver runs every history in a fresh process, with *)
(* real containers (nested lists, numpy int64/uint64 arrays, numpy object arrays, lists of *)
(* numpy rows), and after every step projects which value the object / the returned picture *)
(* denotes by comparing with reference copies that never went near the library.             *)
(*                                                                                          *)
(* WriteImpl / CacheImpl select NEGATIVE models of implementations that break the statement *)
(* ("alias": the writer works in place on a container that shares storage; "hash61": the    *)
(* dimensions are memoised under a key that identifies depths modulo 61, as CPython's       *)
(* integer hash does for 2^d - 1): TLC must find the invariants violated for them.          *)
EXTENDS RawFileOps, TLC

CONSTANTS Shapes,      \* set of [w, h, sub, fields]
          DepthPairs,  \* set of <<luma depth, colour-difference depth>>
          Kinds,       \* container kinds of the caller's picture object
          MaxWrites,   \* writes of one picture object
          MaxPrev,     \* formats used earlier in the process
          Canon,       \* TRUE: each use is the fixed programme New, Write a, Read a, [Done |] Vary, Write b, Read b, Compare a b
          WriteImpl,   \* "copy" (the statement) | "alias" (negative model)
          CacheImpl    \* "none" (the statement) | "hash61" (negative model)

SlotA == "a"
SlotB == "b"
Slots == {SlotA, SlotB}

AllKinds == {"list", "npint", "npobj", "nprows"}   \* nested lists; numpy int64 (uint64 at depth 64); numpy dtype=object; list of numpy object rows
KindsList == {"list"}
KindsObj  == {"npobj"}
ShapeF0    == {[w |-> 2, h |-> 2, sub |-> "422", fields |-> FALSE]}
ShapeF1    == {[w |-> 4, h |-> 4, sub |-> "420", fields |-> TRUE]}
SizesSmall == {<<1, 1>>, <<2, 2>>, <<3, 3>>, <<4, 4>>, <<2, 4>>}
SizesMore  == SizesSmall \cup {<<6, 4>>, <<2, 8>>, <<5, 2>>, <<8, 2>>}
ShapesOver(S) == {s \in [w : {x[1] : x \in S}, h : {x[2] : x \in S}, sub : {"444", "422", "420"}, fields : BOOLEAN] : <<s.w, s.h>> \in S}
ShapesSmall == ShapesOver(SizesSmall)
ShapesMore  == ShapesOver(SizesMore)
DepthsEvery == {<<d, d>> : d \in 1..64}                          \* every depth after every other
DepthsEveryAlt == DepthsEvery \cup {<<d, 65 - d>> : d \in 1..64}
DepthsKinds == {<<1, 8>>, <<9, 16>>, <<17, 32>>, <<33, 64>>, <<64, 12>>}
DepthsKindsMore == DepthsKinds \cup {<<8, 9>>, <<16, 17>>, <<10, 10>>, <<24, 48>>, <<63, 2>>}
DepthsTwo   == {<<10, 8>>, <<8, 10>>}
DepthsOne   == {<<9, 9>>}
DepthsNeg   == {<<1, 1>>, <<2, 2>>, <<62, 62>>, <<63, 63>>}
DepthsEdge  == {<<d, d>> : d \in {1, 2, 3, 62, 63, 64}} \cup {<<1, 64>>, <<62, 3>>}

Fmt(s, dp) == [w |-> s.w, h |-> s.h, sub |-> s.sub, fields |-> s.fields, dl |-> dp[1], dc |-> dp[2]]
Formats == {f \in {Fmt(s, dp) : s \in Shapes, dp \in DepthPairs} : ValidFormat(f)}

VARIABLES used, obj, files, rd, rank, last, inp, hist
vars == <<used, obj, files, rd, rank, last, inp, hist>>

NoFmt  == [w |-> 0, h |-> 0, sub |-> "444", fields |-> FALSE, dl |-> 0, dc |-> 0]
NoObj  == [live |-> FALSE, f |-> NoFmt, k |-> "list", v |-> 0, nw |-> 0]
NoFile == [v |-> 0, nth |-> 0, lay |-> <<0, 0>>]
NoLast == [op |-> "none"]

Init == /\ used = <<>> /\ obj = NoObj /\ files = [s \in Slots |-> NoFile] /\ rd = FALSE /\ rank = 0
        /\ last = NoLast /\ inp = [a |-> "init"] /\ hist = <<>>

\* every history step carries what the spec predicts for it (last' is fixed before Step in every action)
Step(i) == inp' = i /\ hist' = Append(hist, [i |-> i, exp |-> last'])
\* position in the fixed programme (Canon); constant within a use otherwise
Adv == rank' = IF Canon THEN rank + 1 ELSE 1

(* ---- the two implementation choices (the statement: "copy", "none") -------------------- *)
Lay(f) == <<f.dl, f.dc>>
\* writing in place destroys a container that shares storage with the writer's working array as
\* soon as some component has more than one byte per sample
Destroys(o) == WriteImpl = "alias" /\ o.k = "npobj" /\ (Bps(o.f.dl) > 1 \/ Bps(o.f.dc) > 1)
\* formats that a key taken modulo 2^61 - 1 cannot tell apart
Collides(g, f) == /\ [g EXCEPT !.dl = 0, !.dc = 0] = [f EXCEPT !.dl = 0, !.dc = 0]
                  /\ g.dl % 61 = f.dl % 61 /\ g.dc % 61 = f.dc % 61 /\ Lay(g) # Lay(f)
EffLay(f) == IF CacheImpl = "hash61" /\ \E i \in 1..Len(used) : Collides(used[i], f)
             THEN Lay(used[CHOOSE i \in 1..Len(used) : Collides(used[i], f)])
             ELSE Lay(f)
\* what a file written / read with the layout of other depths holds of value v
Through(v, lay, f) == IF lay = Lay(f) THEN v ELSE 3

(* ---- caller actions (no library code runs) --------------------------------------------- *)
New == \E f \in Formats, k \in Kinds :
  /\ ~obj.live /\ rank = 0
  /\ obj' = [live |-> TRUE, f |-> f, k |-> k, v |-> 1, nw |-> 0]
  /\ rank' = 1 /\ last' = NoLast
  /\ UNCHANGED <<used, files, rd>> /\ Step([a |-> "new", f |-> f, k |-> k])

\* a NEW object of the same kind and format holding the variant value
Vary ==
  /\ obj.live /\ obj.v = 1 /\ obj.nw >= 1
  /\ Canon => rank = 3
  /\ obj' = [obj EXCEPT !.v = 2, !.nw = 0]
  /\ Adv /\ last' = NoLast
  /\ UNCHANGED <<used, files, rd>> /\ Step([a |-> "vary"])

\* the caller has finished with this format: object dropped, files deleted
Done ==
  /\ obj.live /\ rd /\ Len(used) < MaxPrev
  /\ Canon => rank \in {3, 7}
  /\ used' = Append(used, obj.f)
  /\ obj' = NoObj /\ files' = [s \in Slots |-> NoFile] /\ rd' = FALSE /\ rank' = 0 /\ last' = NoLast
  /\ Step([a |-> "done"])

(* ---- library actions -------------------------------------------------------------------- *)
WriteTo(s) ==
  /\ obj.live /\ obj.nw < MaxWrites
  /\ Canon => (rank = 1 /\ s = SlotA) \/ (rank = 4 /\ s = SlotB)
  /\ files' = [files EXCEPT ![s] = [v |-> Through(obj.v, EffLay(obj.f), obj.f), nth |-> obj.nw + 1, lay |-> EffLay(obj.f)]]
  /\ obj' = [obj EXCEPT !.nw = @ + 1, !.v = IF Destroys(obj) THEN 3 ELSE @]
  /\ Adv
  \* predicted: the value the caller's object denotes afterwards, its other arguments unchanged, the file size
  /\ last' = [op |-> "write", s |-> s, objv |-> obj'.v, args |-> TRUE, size |-> FileSize(obj.f)]
  /\ UNCHANGED <<used, rd>> /\ Step([a |-> "write", s |-> s])

ReadFrom(s) ==
  /\ obj.live /\ files[s].v # 0
  /\ Canon => (rank = 2 /\ s = SlotA) \/ (rank = 5 /\ s = SlotB)
  /\ Adv /\ rd' = (MaxPrev > 0)
  \* predicted: the value the returned picture denotes; number, parameters, coding mode as written
  /\ last' = [op |-> "read", s |-> s, v |-> Through(files[s].v, EffLay(obj.f), obj.f), meta |-> TRUE]
  /\ UNCHANGED <<used, obj, files>> /\ Step([a |-> "read", s |-> s])

Compare(s, t) ==
  /\ obj.live /\ files[s].v # 0 /\ files[t].v # 0 /\ s # t
  /\ Canon => rank = 6 /\ s = SlotA /\ t = SlotB
  /\ Adv /\ rd' = (MaxPrev > 0)
  /\ LET same == files[s].v = files[t].v
         cnt  == [c \in {"Y", "C1", "C2"} |-> IF same \/ c = "C1" THEN 0 ELSE 1]
     IN last' = [op |-> "cmp", s |-> s, t |-> t, exit |-> ExitCode(TRUE, TRUE, TRUE, cnt), counts |-> cnt]
  /\ UNCHANGED <<used, obj, files>> /\ Step([a |-> "cmp", s |-> s, t |-> t])

Next == New \/ Vary \/ Done \/ (\E s \in Slots : WriteTo(s) \/ ReadFrom(s)) \/ (\E s, t \in Slots : Compare(s, t))
Spec == Init /\ [][Next]_vars

(* ---- the statement ----------------------------------------------------------------------- *)
\* the caller's object denotes the value it was created with, however often it was written
ObjectsDenoteTheirValue == obj.live => obj.v \in {1, 2}
\* a file holds the value of the object at the time of the write, in the layout of its own format
FileLayoutOfOwnFormat == \A s \in Slots : files[s].v # 0 => files[s].lay = Lay(obj.f)
FilesHoldWhatWasWritten == \A s \in Slots : files[s].v \in {0, 1, 2}
ReadsBackWhatWasWritten == last.op = "read" => last.v \in {1, 2} /\ last.v = files[last.s].v
\* two files compare as identical exactly when they hold the same value
CompareExact == last.op = "cmp" => (last.exit = 0) = (files[last.s].v = files[last.t].v) /\ last.exit \in {0, 4}
\* frame condition of the library actions
WritePure == [][(inp'.a = "write") => (obj'.v = obj.v /\ obj'.f = obj.f /\ obj'.k = obj.k /\ used' = used)]_vars

View == <<used, obj, files, rd, rank, last, inp>>
=============================================================================
