--------------------------- MODULE RateControlLD ---------------------------
(* Low-delay lossy pictures at the slice-size boundaries (property C14).                       *)
(*                                                                                             *)
(* make_transform_data_ld_lossy codes the slices of a picture one after the other: slice k of  *)
(* n gets SliceBytes(k, picture_bytes, n) bytes (13.5.3.2: sizes differ by one byte when n     *)
(* does not divide picture_bytes), of which 7 bits are the qindex field and                    *)
(* intlog2(8*bytes - 7) bits the slice_y_length field (13.5.3.1); what is left is the slice's  *)
(* OWN coefficient budget LDBudget(bytes).  The width of the length field changes exactly      *)
(* between slices of 2^j and 2^j + 1 bytes, so the budgets of the two slice sizes of one       *)
(* picture differ by 7 bits there (by 8 elsewhere).                                            *)
(*                                                                                             *)
(* TLC enumerates every picture of a box: slice grids, picture_bytes = n*b + r with the mean   *)
(* slice size b around every power of two of Pows (2^j - 1, 2^j, 2^j + 1) and remainders r     *)
(* giving equal and unequal slices, minimum indices, and for every slice a coefficient         *)
(* content CONSTRUCTED from CoeffBits / QuantFactor so that, at the index qt = qmin + up, the   *)
(* quantised blocks take exactly the slice's budget ("exact": the last bit is used, qt is the  *)
(* Chosen index), one bit less ("spare") or one bit more ("over": qt does not fit).  One action *)
(* per slice (CodeSlice, as the loop of the code), Done prints the picture with the index the   *)
(* property demands for every slice.  The invariant Constructed has TLC confirm that the       *)
(* content does what it was built for; the driver feeds every picture to the real              *)
(* make_transform_data_ld_lossy and RateControlTrace.tla judges the slices.                     *)
EXTENDS RateControlOps, TLC, Json, FiniteSets

CONSTANTS Grids,   \* set of <<slices_x, slices_y>>
          Pows,    \* powers of two: mean slice sizes 2^j - 1, 2^j, 2^j + 1 are enumerated
          QMins,   \* minimum_qindex values
          Ups,     \* qt - qmin
          Fills    \* subset of {"exact", "spare", "over"}

\* cfg files cannot hold tuples: Grids <- GridsQuick
GridsQuick    == {<<2, 1>>, <<3, 1>>, <<2, 2>>, <<3, 2>>}
GridsThorough == {<<1, 1>>, <<2, 1>>, <<3, 1>>, <<2, 2>>, <<1, 3>>, <<3, 2>>, <<4, 2>>, <<4, 3>>}

Bases == (UNION {{p - 1, p, p + 1} : p \in Pows}) \ {0}
Rems(n) == {0, 1, n \div 2, n - 1} \cap (0..(n - 1))
Instances == UNION {[sx : {g[1]}, sy : {g[2]}, b : Bases, r : Rems(g[1] * g[2]), qmin : QMins, up : Ups, fill : Fills] : g \in Grids}

NSl(i) == i.sx * i.sy
PB(i)  == NSl(i) * i.b + i.r
QT(i)  == i.qmin + i.up

(* ---- content construction ------------------------------------------------------------------ *)
\* the largest coefficient (by magnitude) that index idx quantises to v: at any smaller index it
\* quantises to a magnitude >= |v|, i.e. to a code at least as long
XMax(v, idx) == LET m == ((Abs(v) + 1) * QuantFactor(idx) - 1) \div 4 IN IF v >= 0 THEN m ELSE -m
\* 6 -> 7 and 14 -> 15 lengthen the code by two bits, and XMax(6, idx) quantises to 7 at idx - 1 (7 * (QF(idx) -
\* QF(idx-1)) >= 4): a block that starts with the atom 6 at a position without matrix value does not fit at qt - 1
Atoms == <<6, 1, -3, 0, 7, 2, 0, -1, 15, 0, 0, -14>>     \* code lengths 6 4 6 1 8 4 1 4 10 1 1 8
\* a value whose code takes exactly L bits, L even >= 4
ValOfLen(L) == 2^((L - 2) \div 2)
\* quantised values whose codes take exactly R bits in total, ending in a non-zero value (R >= 4)
RECURSIVE FillSeq(_, _, _)
FillSeq(R, i, acc) ==
  LET a == Atoms[((i - 1) % Len(Atoms)) + 1]
      L == SignedLen(a) IN
  IF R - L >= 4 THEN FillSeq(R - L, i + 1, Append(acc, a))
  ELSE IF R % 2 = 0 THEN Append(acc, ValOfLen(R))
  ELSE Append(Append(acc, 0), -ValOfLen(R - 1))
Block(R, i) == IF R < 4 THEN <<>> ELSE FillSeq(R, i, <<>>)
\* matrix values: none on odd slices, a ramp 0 1 2 0 1 2 .. on even slices
MatOf(k, len) == [j \in 1..len |-> IF k % 2 = 0 THEN (j - 1) % 3 ELSE 0]
Unquant(vs, ms, qt) == [j \in 1..Len(vs) |-> XMax(vs[j], MaxI(0, qt - ms[j]))]
Odds(s)  == [j \in 1..((Len(s) + 1) \div 2) |-> s[2 * j - 1]]
Evens(s) == [j \in 1..(Len(s) \div 2) |-> s[2 * j]]
\* the bits the content of slice k (1-based) is built to take at qt, given the slice's budget B
Want(i, B) == CASE i.fill = "exact" -> B [] i.fill = "spare" -> B - 1 [] i.fill = "over" -> B + 1
\* how the bits are split between the luma block and the interleaved colour block
YShare(k, F) == LET h == CASE k % 3 = 0 -> F \div 2 [] k % 3 = 1 -> F [] OTHER -> 0 IN
                IF h < 4 \/ (F - h > 0 /\ F - h < 4) THEN (IF k % 3 = 2 THEN 0 ELSE F) ELSE h
Content(i, k, B) ==
  LET F  == Want(i, B)
      fy == IF F < 4 THEN 0 ELSE YShare(k, F)
      fc == IF F < 4 THEN 0 ELSE F - fy
      \* two further coefficients that quantise to zero at qt after the last coded one (not coded at qt)
      yq == IF F < 4 THEN <<1>> ELSE Block(fy, 1 + 3 * (k % 2)) \o <<0, 0>>
      c0 == Block(fc, 1 + 5 * (k % 2)) \o <<0, 0>>
      cq == IF Len(c0) % 2 = 0 THEN c0 ELSE Append(c0, 0)
      my == MatOf(k, Len(yq))
      mc == MatOf(k + 1, Len(cq))
      y  == IF F < 4 THEN <<1>> ELSE Unquant(yq, my, QT(i))
      c  == Unquant(cq, mc, QT(i))
  IN [y |-> y, my |-> my, c1 |-> Odds(c), mc1 |-> Odds(mc), c2 |-> Evens(c), mc2 |-> Evens(mc), built |-> F >= 4]

LDSets(s) == << [cs |-> s.y, ms |-> s.my], [cs |-> Interleave(s.c1, s.c2), ms |-> Interleave(s.mc1, s.mc2)] >>
BitsAt(s, q) == FitBits(LDSets(s), 2, q, 1)
QSearch == 60       \* every coefficient of the box quantises to zero well below qmin + QSearch
ChosenIndex(s, B, qmin) == CHOOSE q \in qmin..(qmin + QSearch) : Chosen(LDSets(s), q, 1, B, qmin)

(* ---- the picture, slice by slice ----------------------------------------------------------- *)
VARIABLES inst, k, slices, status
vars == <<inst, k, slices, status>>

Init == inst \in Instances /\ k = 0 /\ slices = <<>> /\ status = "coding"
CodeSlice ==
  /\ status = "coding" /\ k < NSl(inst)
  /\ LET sb == SliceBytes(k, PB(inst), NSl(inst))
         B  == LDBudget(sb)
         c  == Content(inst, k + 1, B) IN
     slices' = Append(slices, [sb |-> sb, budget |-> B, lenbits |-> LDLengthBits(sb), c |-> c,
                               q |-> ChosenIndex(c, B, inst.qmin)])
  /\ k' = k + 1
  /\ UNCHANGED <<inst, status>>
Done ==
  /\ status = "coding" /\ k = NSl(inst)
  /\ status' = "done"
  /\ PrintT(<<"LDI", ToJson([inst |-> inst, pb |-> PB(inst), slices |-> slices])>>)
  /\ UNCHANGED <<inst, k, slices>>
Next == CodeSlice \/ Done
Spec == Init /\ [][Next]_vars

(* ---- what TLC checks ------------------------------------------------------------------------ *)
\* the content does what it was built for, with the slice's own budget
Constructed ==
  \A j \in 1..Len(slices) :
    LET s == slices[j] IN
    /\ s.budget = 8 * s.sb - 7 - IntLog2C(8 * s.sb - 7) /\ s.budget >= 0
    /\ Chosen(LDSets(s.c), s.q, 1, s.budget, inst.qmin)
    /\ s.c.built =>
         /\ BitsAt(s.c, QT(inst)) = Want(inst, s.budget)
         \* at a smaller index no code gets shorter: if one fits it fills the budget to the last bit as well
         /\ inst.fill = "exact" => s.q <= QT(inst) /\ BitsAt(s.c, s.q) = s.budget
         /\ inst.fill = "spare" => s.q <= QT(inst) /\ BitsAt(s.c, s.q) \in {s.budget - 1, s.budget}
         /\ inst.fill = "over" => s.q > QT(inst)
\* sizes: exact total, two sizes at most, and (the class this module exists for) the two sizes of a picture
\* have length fields of different widths exactly when the smaller one is a power of two (1 and 2 bytes: 0 and 4 bits)
RECURSIVE SumSb(_, _)
SumSb(s, j) == IF j = 0 THEN 0 ELSE s[j].sb + SumSb(s, j - 1)
Sizes ==
  status = "done" =>
    /\ SumSb(slices, Len(slices)) = PB(inst)
    /\ \A j \in 1..Len(slices) : slices[j].sb \in {inst.b, inst.b + 1}
    /\ (inst.r > 0) => /\ \E j \in 1..Len(slices) : slices[j].sb = inst.b
                       /\ \E j \in 1..Len(slices) : slices[j].sb = inst.b + 1
    /\ \A j1, j2 \in 1..Len(slices) :
         (slices[j1].sb + 1 = slices[j2].sb) =>
            slices[j2].budget - slices[j1].budget =
               (IF slices[j1].sb = 1 THEN 4 ELSE IF 2^FloorLog2(slices[j1].sb) = slices[j1].sb THEN 7 ELSE 8)
=============================================================================
