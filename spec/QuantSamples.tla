----------------------------- MODULE QuantSamples -----------------------------
(* C12, G direction for coefficients of EVERY size (Quantisation.tla stops at |x| <= MaxX and  *)
(* index 47 because of TLC's 32-bit integers): TLC computes, in limb arithmetic, for every     *)
(* quantisation index i, every binade and several positions inside the binade, ONE            *)
(* quantisation interval  { x : floor(4x / QF(i)) = q }  and the points of that interval where  *)
(* a wrongly rounded quotient turns into a reconstruction error of a whole step:               *)
(*     first point, mid-point - 1, mid-point, mid-point + 1, last point.                       *)
(* (An implementation whose quotient is one too large keeps 4|r - x| < F for x in the upper    *)
(* half of the interval and breaks it for x in the lower half up to the mid-point; one too     *)
(* small: the mirror image.  The mid-point neighbourhood is therefore where a quotient error   *)
(* of magnitude >= 1/2 first becomes a violation of C12; the end points show any smaller one   *)
(* as a difference from the design -- logged, never an alarm.)                                 *)
(* The states are dumped (-dump); the driver calls the real forward_quant / inverse_quant on   *)
(* every point (both signs), compares with the design's q and r given here and hands the       *)
(* recorded numbers to QuantTrace.tla for the verdict.                                         *)
(* Invariants: the design itself satisfies C12 on every sample (InInterval, DesignWithinStep,  *)
(* DesignLossless0) and the limb formulas agree with the plain ones where those exist.         *)
EXTENDS QuantisationOps, BigNat, TLC

CONSTANTS MaxI,      \* quantisation indices 0..MaxI
          LoBin,     \* binades: |x| roughly in 2^b .. 2^(b+2) for b = max(LoBin, i div 4) + (0..Bins-1)
          Bins,
          Slots      \* sampled intervals per binade

(* ------------------------------ limb arithmetic: floor division by a TLC integer ----------- *)
(* a \div d for 1 <= d <= 2^30: schoolbook division bit by bit (2 * rem + 1 < 2^31)            *)
RECURSIVE BDivBits(_, _, _, _, _)
BDivBits(rem, v, k, qacc, d) ==          \* the k low bits of limb v still to be brought down
  IF k = 0 THEN <<qacc, rem>>
  ELSE LET t == 2 * rem + ((v \div (2 ^ (k - 1))) % 2) IN
       IF t >= d THEN BDivBits(t - d, v, k - 1, 2 * qacc + 1, d)
       ELSE BDivBits(t, v, k - 1, 2 * qacc, d)
RECURSIVE BDivLimbs(_, _, _, _)
BDivLimbs(a, j, rem, d) ==               \* limbs j..1 (most significant first); little-endian quotient
  IF j = 0 THEN <<>>
  ELSE LET st == BDivBits(rem, a[j], 15, 0, d) IN BDivLimbs(a, j - 1, st[2], d) \o <<st[1]>>
BDivNat(a, d) == BNorm(BDivLimbs(a, Len(a), 0, d))

(* ------------------------------ design (13.3) in limbs, any index -------------------------- *)
BQF(i) == LET b == BPow2(i \div 4) IN
          CASE i % 4 = 0 -> BMulSmall(b, 4)
            [] i % 4 = 1 -> BDivNat(BAdd(BMul(BFromNat(503829), b), BFromNat(52958)), 105917)
            [] i % 4 = 2 -> BDivNat(BAdd(BMul(BFromNat(665857), b), BFromNat(58854)), 117708)
            [] OTHER     -> BDivNat(BAdd(BMul(BFromNat(440253), b), BFromNat(32722)), 65444)
BQO(i) == IF i = 0 THEN <<1>> ELSE IF i = 1 THEN <<2>> ELSE BDivNat(BAdd(BQF(i), <<1>>), 2)
BIq(q, i) == IF BIsZero(q) THEN BZero                             \* magnitude of inverse_quant
             ELSE BDivNat(BAdd(BAdd(BMul(q, BQF(i)), BQO(i)), <<2>>), 4)

(* ------------------------------ the sampled interval --------------------------------------- *)
Max2(a, b) == IF a >= b THEN a ELSE b
Min2(a, b) == IF a <= b THEN a ELSE b
Binade(i, e) == Max2(LoBin, i \div 4) + e
(* quantised magnitude: 2^(b - i div 4) * (1 + s/Slots), moved off the round numbers by a       *)
(* pseudo-random amount below the distance to the next slot                                     *)
QOf(i, e, s) ==
  LET n    == Binade(i, e) - i \div 4
      base == BDivNat(BMulSmall(BPow2(n), Slots + s), Slots)
      gap  == IF n >= 24 THEN 1048576 ELSE Max2(1, (2 ^ n) \div Slots)
      jit  == ((i * 7919 + Binade(i, e) * 104729 + s * 1299709) % 1000003) % gap IN
  BAdd(base, BFromNat(jit))
Sample(i, e, s) ==
  LET q   == QOf(i, e, s)
      f   == BQF(i)
      lo  == BDivNat(BAdd(BMul(q, f), <<3>>), 4)                         \* ceil(q F / 4)
      hi  == BSub(BDivNat(BAdd(BMul(BAdd(q, <<1>>), f), <<3>>), 4), <<1>>) \* ceil((q+1) F / 4) - 1
      mid == BDivNat(BMul(BAdd(BMulSmall(q, 2), <<1>>), f), 8)           \* floor((2q+1) F / 8)
      cand == <<lo, IF BIsZero(mid) THEN mid ELSE BSub(mid, <<1>>), mid, BAdd(mid, <<1>>), hi>>
      In(x) == BLe(lo, x) /\ BLe(x, hi) IN
  [q |-> q, r |-> BIq(q, i), f |-> f, lo |-> lo, hi |-> hi, xs |-> SelectSeq(cand, In)]

VARIABLES stage,   \* "start" | "index" | "picked"  (two steps so that TLC's workers share the indices)
          i, e, s, \* index, binade offset, slot
          smp      \* Sample(i, e, s)
vars == <<stage, i, e, s, smp>>

Init == stage = "start" /\ i = 0 /\ e = 0 /\ s = 0 /\ smp = [q |-> BZero, r |-> BZero, f |-> BZero, lo |-> BZero, hi |-> BZero, xs |-> <<>>]
Index(ii) == stage = "start" /\ stage' = "index" /\ i' = ii /\ UNCHANGED <<e, s, smp>>
Pick(ee, ss) == /\ stage = "index" /\ stage' = "picked"
                /\ e' = ee /\ s' = ss /\ smp' = Sample(i, ee, ss) /\ UNCHANGED i
Next == \/ \E ii \in 0..MaxI : Index(ii)
        \/ \E ee \in 0..(Bins - 1), ss \in 0..(Slots - 1) : Pick(ee, ss)
Spec == Init /\ [][Next]_vars

Picked == stage = "picked"
K == 1..Len(smp.xs)
(* the interval is not empty, is in the intended binades and its points quantise to q *)
InInterval == Picked =>
  /\ BLe(smp.lo, smp.hi) /\ Len(smp.xs) >= 1
  /\ \A k \in K : BIsFloorDiv(smp.q, BMulSmall(smp.xs[k], 4), smp.f)
  /\ ~BIsFloorDiv(smp.q, BMulSmall(BAdd(smp.hi, <<1>>), 4), smp.f)
  /\ (BIsZero(smp.lo) \/ ~BIsFloorDiv(smp.q, BMulSmall(BSub(smp.lo, <<1>>), 4), smp.f))
  /\ BLe(BPow2(Binade(i, e)), BAdd(smp.hi, <<1>>)) /\ BLt(smp.lo, BPow2(Binade(i, e) + 2))
(* C12 on the design: 4 |Iq(Fq(x)) - x| < F, index 0 exact *)
DesignWithinStep == Picked => \A k \in K : BLt(BMulSmall(BAbsDiff(smp.r, smp.xs[k]), 4), smp.f)
DesignLossless0  == Picked /\ i = 0 => \A k \in K : BEq(smp.r, smp.xs[k])
(* the limb formulas are the plain ones wherever those fit, and floor division is floor division *)
ASSUME LimbsAgree ==
  /\ \A k \in 0..MaxPlainQI : BEq(BQF(k), BFromNat(QF(k))) /\ BEq(BQO(k), BFromNat(QO(k)))
  /\ \A a \in {0, 1, 7, 32767, 32768, 1000003, 2147483647}, d \in {1, 2, 4, 8, 65444, 105917, 117708, 1073741824} :
       BEq(BDivNat(BFromNat(a), d), BFromNat(a \div d))
  /\ \A k \in {0, 17, 44, 61, 90} : BEq(BDivNat(BPow2(k + 3), 8), BPow2(k))
                                    /\ BIsFloorDiv(BDivNat(BPow2(k + 20), 105917), BPow2(k + 20), BFromNat(105917))
SampleSmall == Picked /\ i <= MaxPlainQI =>
  \A k \in K : (BFits(smp.xs[k]) /\ BToNat(smp.xs[k]) < 536870912)
               => /\ BEq(smp.q, BFromNat(Fq(BToNat(smp.xs[k]), i)))
                  /\ (BFits(smp.q) => BEq(smp.r, BFromNat(Iq(BToNat(smp.q), i))))
=============================================================================
