--------------------------- MODULE SeqHeaderTrace ---------------------------
(* Validation of sequence headers recorded from the real encoder and validator (C15).        *)
(*                                                                                           *)
(* One log line per codec configuration: the requested video parameters, coding mode, level  *)
(* and codec features, and for EVERY header that iter_sequence_headers() yielded: the base   *)
(* video format, the abstract encoding read from the emitted dictionary (per group: flag,    *)
(* index, coded values), the validator's verdict on [sequence_header, end_of_sequence], the  *)
(* video parameters / coding mode / major_version the validator decoded.                     *)
(*                                                                                           *)
(* Alarm clauses are exactly the statement of C15 (accepted, decoded = requested).  Everything *)
(* else the specification predicts (11.4 decode of the abstract encoding, version number,    *)
(* level admission, membership in the encoder design's option list, number of headers per    *)
(* base format) is compared and reported as a non-alarm disagreement (rule R1).              *)
(*                                                                                           *)
(* Every recorded header is serialised TWICE: in isolation (a deep copy, fields prefixed as   *)
(* before: ok, exc, key, dec, dpcm, ver) and IN ORDER: the very objects the generator yielded, *)
(* one after the other in generation order, without copying them, as a user of the public API  *)
(* would (h.cell = position of the first recorded header of the configuration whose            *)
(* parse-parameters object IS this header's; h.same = the bytes equal the isolated ones;       *)
(* h.s = the validator's verdict on the in-order bytes when they differ).  The validator is a  *)
(* function of the bytes, so identical bytes are not judged twice.  The alarm clauses of the   *)
(* in-order pass are again exactly C15 (accepted, decoded = requested) - for the header as     *)
(* generated; what the heap model (SeqHeaderOps!SerialiseInOrder) predicts - own cells, the    *)
(* version each in-order header carries, bytes independent of the order - is logged.           *)
EXTENDS SeqHeaderOps, Json, IOUtils, TLCExt

Log == ndJsonDeserialize(IOEnv.TRACE_FILE)

VARIABLES l, bad
tvars == <<l, bad>>

HRec(e, h) == [level |-> e.level, profile |-> e.ft.profile, version |-> h.ver, b |-> h.b, e |-> h.e, pcm |-> e.pcm]

V(c, a) == [c |-> c, alarm |-> a]

HeaderClause(e, opts, lcols, h) ==
  \* the known finding, attributed only to its exact input class: levels 64/65, low-delay profile, the
  \* validator rejects key major_version, the value it read is the one the (11.2.2) minimal-version rule
  \* dictates for this header, and the deviation model predicts the rejection (every other field is
  \* admitted by some column of the level, the version is not)
  IF ~h.ok /\ h.exc = "ValueNotAllowedInLevel" /\ h.key = "major_version" /\ WellFormed(h.e)
          /\ e.level \in {64, 65} /\ e.ft.profile = 0
          /\ h.ver = HeaderVersion(e.ft.profile, h.e)
          /\ DeviationLevelVersion(HRec(e, h))          THEN V("RejectedLevelVersion", TRUE)
  ELSE IF ~h.ok                                         THEN V("Rejected", TRUE)
  ELSE IF h.dec # e.req                                 THEN V("WrongParameters", TRUE)
  ELSE IF h.dpcm # e.pcm                                THEN V("WrongCodingMode", TRUE)
  ELSE IF ~WellFormed(h.e)                              THEN V("SpecMalformed", FALSE)
  ELSE IF DecodeHeader(h.b, h.e) # h.dec                THEN V("SpecDecode", FALSE)
  ELSE IF h.ver # HeaderVersion(e.ft.profile, h.e)      THEN V("SpecVersion", FALSE)
  ELSE IF ~(\E k \in lcols : ColumnAllowsHeader(LevelColumns[k], HRec(e, h))) THEN V("SpecLevel", FALSE)
  ELSE IF e.full /\ ~(\E t \in 1..Len(opts[h.b + 1]) : opts[h.b + 1][t] = h.e)
                                                        THEN V("SpecOption", FALSE)
  ELSE V("ok", FALSE)

(* the in-order pass: iov = SerialiseInOrder over the recorded cells (the version the heap model says *)
(* header j carries when the headers are serialised one after the other)                               *)
InOrderClause(e, allwf, iov, j) ==
  LET h == e.hs[j] IN
  IF ~h.same /\ ~h.s.ok                                 THEN V("RejectedInOrder", TRUE)
  ELSE IF ~h.same /\ h.s.dec # e.req                    THEN V("WrongParametersInOrder", TRUE)
  ELSE IF ~h.same /\ h.s.dpcm # e.pcm                   THEN V("WrongCodingModeInOrder", TRUE)
  ELSE IF h.cell # j                                    THEN V("SpecAliasedParseParameters", FALSE)
  ELSE IF allwf /\ (h.same => h.ok) /\ (IF h.same THEN h.ver ELSE h.s.ver) # iov[j]
                                                        THEN V("SpecInOrderVersion", FALSE)
  ELSE IF ~h.same                                       THEN V("SpecOrderDependent", FALSE)
  ELSE V("ok", FALSE)

(* per configuration (when all headers were recorded): the number of headers per base format is what *)
(* the design predicts                                                                                *)
CountClause(e, opts) ==
  IF ~e.full THEN V("ok", FALSE)
  ELSE IF \E b \in Bases : Cardinality({j \in 1..Len(e.hs) : e.hs[j].b = b}) # Len(opts[b + 1])
       THEN V("SpecCount", FALSE)
  ELSE V("ok", FALSE)

LineBad(e, line) ==
  LET cols == MatchingColumns(CV(e.level, e.pcm, e.req, e.ft))
      \* the design's option lists per base format, computed once per line (only for fully recorded lines)
      opts == [b1 \in 1..NumBases |-> IF e.full THEN HeadersForBase(cols, e.req, b1 - 1) ELSE <<>>]
      \* the validator can only ever match columns of the stream's level: select them once per line
      lcols == {k \in 1..Len(LevelColumns) : Allowed(LevelColumns[k], "level", e.level)}
      cl   == [j \in 1..Len(e.hs) |-> HeaderClause(e, opts, lcols, e.hs[j])]
      idx  == AscSeq({j \in 1..Len(e.hs) : cl[j].c # "ok"})
      hb   == [k \in 1..Len(idx) |-> [tid |-> e.tid, line |-> line, h |-> idx[k],
                                      clause |-> cl[idx[k]].c, alarm |-> cl[idx[k]].alarm]]
      iov  == SerialiseInOrder(e.ft.profile, [j \in 1..Len(e.hs) |-> [e |-> e.hs[j].e, cell |-> e.hs[j].cell]])
      allwf == \A j \in 1..Len(e.hs) : WellFormed(e.hs[j].e)     \* (a malformed one is reported by HeaderClause)
      il   == [j \in 1..Len(e.hs) |-> InOrderClause(e, allwf, iov, j)]
      iidx == AscSeq({j \in 1..Len(e.hs) : il[j].c # "ok"})
      ib   == [k \in 1..Len(iidx) |-> [tid |-> e.tid, line |-> line, h |-> iidx[k],
                                       clause |-> il[iidx[k]].c, alarm |-> il[iidx[k]].alarm]]
      cc   == CountClause(e, opts)
  IN hb \o ib \o (IF cc.c = "ok" THEN <<>> ELSE <<[tid |-> e.tid, line |-> line, h |-> 0, clause |-> cc.c, alarm |-> cc.alarm]>>)

TraceInit == l = 1 /\ bad = <<>>
TraceNext == /\ l <= Len(Log)
             /\ l' = l + 1
             /\ bad' = bad \o LineBad(Log[l], l)
TraceSpec == TraceInit /\ [][TraceNext]_tvars

Report == l = Len(Log) + 1 => PrintT(<<"BAD", ToJson(bad)>>)
AllConsumed == TLCGet("stats").diameter - 1 = Len(Log)
=============================================================================
