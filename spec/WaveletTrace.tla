----------------------------- MODULE WaveletTrace -----------------------------
(* Validation of transforms recorded from the real dwt_pad_addition / dwt / idwt /          *)
(* idwt_pad_removal (property C11).  One log line per transformed component:                *)
(*   f, fho, d, dho, w, h      the configuration and component size                        *)
(*   arrays = TRUE:  pic, rec  the input picture and the decoded picture (values < 2^30)    *)
(*   arrays = FALSE: equal     the driver's equality of the two arrays (large values)       *)
(*   shapes: [n, b, w, h]      the shape of every band the forward transform returned       *)
(*   geom:   [n, sw, sh]       subband_width/height of slice_sizes.py for every level       *)
(*   cmp = TRUE: co            the coefficient arrays, compared with the design's (logged)  *)
(*   exc                       "none", or the exception that escaped instead of a result    *)
(* Alarm clauses: exact reconstruction; band set and shapes equal to the slice geometry.    *)
(*                                                                                          *)
(* State-level events (ev = "picture"): one line per whole picture run through the real     *)
(* forward_wavelet_transform + inverse_wavelet_transform (mode "fwt") or picture_encode +   *)
(* picture_decode (mode "codec", in-range samples) with luma_width/height and               *)
(* color_diff_width/height in the state:                                                    *)
(*   mode, f, fho, d, dho, lw, lh, cw, ch, exc                                              *)
(*   comps: <<Y, C1, C2>>, each a record like a "dwt" line (c = component name, w, h = the  *)
(*          size the state gives that component, depth = sample depth or 0, pic, rec,       *)
(*          shapes, geom, ...)                                                              *)
(* Every component is judged by the same clauses as a single transform; the first alarm     *)
(* (in the order Y, C1, C2) is reported with the component name.                            *)
EXTENDS WaveletOps, Json, IOUtils, TLCExt

Log == ndJsonDeserialize(IOEnv.TRACE_FILE)

VARIABLES l, bad
tvars == <<l, bad>>

Verdict(c, a) == [c |-> c, alarm |-> a]

ExpectedBands(d, dho) == UNION {{<<n, b>> : b \in BandNames(n, d, dho)} : n \in Levels(d, dho)}
RecordedBands(e) == {<<e.shapes[k].n, e.shapes[k].b>> : k \in 1..Len(e.shapes)}
GeomOf(e, n) == LET k == CHOOSE k \in 1..Len(e.geom) : e.geom[k].n = n IN e.geom[k]

ShapesOk(e) ==
  /\ RecordedBands(e) = ExpectedBands(e.d, e.dho)
  /\ Len(e.shapes) = Cardinality(ExpectedBands(e.d, e.dho))
  /\ \A k \in 1..Len(e.shapes) :
       LET s == e.shapes[k] IN
       /\ \E j \in 1..Len(e.geom) : e.geom[j].n = s.n
       /\ s.w = GeomOf(e, s.n).sw /\ s.h = GeomOf(e, s.n).sh

GeomSpecOk(e) == \A k \in 1..Len(e.geom) :
                   /\ e.geom[k].sw = SubbandWidth(e.w, e.d, e.dho, e.geom[k].n)
                   /\ e.geom[k].sh = SubbandHeight(e.h, e.d, e.dho, e.geom[k].n)

(* the design's coefficients for the recorded picture, band by band *)
CoeffSpecOk(e) ==
  LET spec == Encode(e.pic, e.f, e.fho, e.d, e.dho) IN
  \A k \in 1..Len(e.co) :
    LET c == e.co[k] IN
    c.a = spec[c.n][IF c.n = 0 THEN "DC" ELSE c.b]

Clause(e) ==
  IF e.ev # "dwt" THEN Verdict("UnknownEvent", TRUE)
  ELSE IF e.exc # "none" THEN Verdict("NoResult", TRUE)      \* an exception instead of a picture
  ELSE IF e.arrays /\ ~Reconstructs(e.pic, e.rec) THEN Verdict("PerfectReconstruction", TRUE)
  ELSE IF ~e.arrays /\ ~e.equal THEN Verdict("PerfectReconstruction", TRUE)
  ELSE IF ~ShapesOk(e) THEN Verdict("ShapesMatchSliceGeometry", TRUE)
  ELSE IF ~GeomSpecOk(e) THEN Verdict("SpecGeometry", FALSE)
  ELSE IF e.cmp /\ ~CoeffSpecOk(e) THEN Verdict("SpecCoefficients", FALSE)
  ELSE IF e.arrays /\ e.cmp /\ Decode(Encode(e.pic, e.f, e.fho, e.d, e.dho), e.w, e.h, e.f, e.fho, e.d, e.dho) # e.pic
       THEN Verdict("SpecDoesNotReconstruct", FALSE)
  ELSE Verdict("ok", FALSE)

(* ------------------------------ state-level events ------------------------------------- *)
SizeOf(e) == [lw |-> e.lw, lh |-> e.lh, cw |-> e.cw, ch |-> e.ch]
WellFormedPicture(e) ==
  /\ Len(e.comps) = 3
  /\ \A i \in 1..3 :
       LET k == e.comps[i] IN
       /\ k.c = CompOrder[i] /\ k.ev = "dwt"
       /\ k.w = CompW(SizeOf(e), k.c) /\ k.h = CompH(SizeOf(e), k.c)
       /\ k.f = e.f /\ k.fho = e.fho /\ k.d = e.d /\ k.dho = e.dho
       /\ (k.arrays => Width(k.pic) = k.w /\ Height(k.pic) = k.h)
       /\ (e.mode = "codec") =>
            (k.arrays /\ \A y \in 1..k.h : \A x \in 1..k.w : k.pic[y][x] >= 0 /\ k.pic[y][x] <= 2 ^ k.depth - 1)
PictureClause(e) ==
  IF e.exc # "none" THEN [c |-> "NoResult", alarm |-> TRUE, comp |-> "picture"]
  ELSE IF ~WellFormedPicture(e) THEN [c |-> "MalformedEvent", alarm |-> TRUE, comp |-> "picture"]
  ELSE LET vs == [i \in 1..3 |-> Clause(e.comps[i])]
           alarms == {i \in 1..3 : vs[i].alarm}
           others == {i \in 1..3 : vs[i].c # "ok"} IN
       IF alarms # {} THEN LET i == CHOOSE i \in alarms : \A j \in alarms : i <= j IN
                           [c |-> vs[i].c, alarm |-> TRUE, comp |-> CompOrder[i]]
       ELSE IF others # {} THEN LET i == CHOOSE i \in others : \A j \in others : i <= j IN
                                [c |-> vs[i].c, alarm |-> FALSE, comp |-> CompOrder[i]]
       ELSE [c |-> "ok", alarm |-> FALSE, comp |-> ""]
AnyClause(e) == IF e.ev = "picture" THEN PictureClause(e)
                ELSE LET v == Clause(e) IN [c |-> v.c, alarm |-> v.alarm, comp |-> ""]

(* which components of a recorded picture needed padding, by the design's geometry (vacuity) *)
PadClassOf(e) ==
  IF e.ev # "picture" THEN "single"
  ELSE LET y == NeedsPadding(e.lw, e.lh, e.d, e.dho)
           c == NeedsPadding(e.cw, e.ch, e.d, e.dho) IN
       IF y /\ c THEN "both" ELSE IF y THEN "luma_only" ELSE IF c THEN "chroma_only" ELSE "neither"

VARIABLE cls
TraceInit == l = 1 /\ bad = <<>> /\ cls = [single |-> 0, both |-> 0, luma_only |-> 0, chroma_only |-> 0, neither |-> 0]
TraceNext ==
  /\ l <= Len(Log)
  /\ l' = l + 1
  /\ LET e == Log[l]
         v == AnyClause(e) IN
     /\ bad' = IF v.c = "ok" THEN bad
               ELSE Append(bad, [tid |-> e.tid, line |-> l, clause |-> v.c, alarm |-> v.alarm, comp |-> v.comp])
     /\ cls' = [cls EXCEPT ![PadClassOf(e)] = @ + 1]
TraceSpec == TraceInit /\ [][TraceNext]_<<l, bad, cls>>

Report == l = Len(Log) + 1 => PrintT(<<"PADCLASS", ToJson(cls)>>) /\ PrintT(<<"BAD", ToJson(bad)>>)
AllConsumed == TLCGet("stats").diameter - 1 = Len(Log)
=============================================================================
