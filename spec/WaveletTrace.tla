----------------------------- MODULE WaveletTrace -----------------------------
(* Validation of transforms recorded from the real dwt_pad_addition / dwt / idwt /          *)
(* idwt_pad_removal (property C11).  One log line per transformed component:                *)
(*   f, fho, d, dho, w, h      the configuration and component size                        *)
(*   arrays = TRUE:  pic, rec  the input picture and the decoded picture (values < 2^30)    *)
(*   arrays = FALSE: equal     the driver's equality of the two arrays (large values)       *)
(*   shapes: [n, b, w, h]      the shape of every band the forward transform returned       *)
(*   geom:   [n, sw, sh]       subband_width/height of slice_sizes.py for every level       *)
(*   cmp = TRUE: co            the coefficient arrays, compared with the design's (logged)  *)
(*   exc                       "none", or the exception that escaped instead of a result    *)
(* Alarm clauses: exact reconstruction; band set and shapes equal to the slice geometry.    *)
EXTENDS WaveletOps, Json, IOUtils, TLCExt

Log == ndJsonDeserialize(IOEnv.TRACE_FILE)

VARIABLES l, bad
tvars == <<l, bad>>

Verdict(c, a) == [c |-> c, alarm |-> a]

ExpectedBands(d, dho) == UNION {{<<n, b>> : b \in BandNames(n, d, dho)} : n \in Levels(d, dho)}
RecordedBands(e) == {<<e.shapes[k].n, e.shapes[k].b>> : k \in 1..Len(e.shapes)}
GeomOf(e, n) == LET k == CHOOSE k \in 1..Len(e.geom) : e.geom[k].n = n IN e.geom[k]

ShapesOk(e) ==
  /\ RecordedBands(e) = ExpectedBands(e.d, e.dho)
  /\ Len(e.shapes) = Cardinality(ExpectedBands(e.d, e.dho))
  /\ \A k \in 1..Len(e.shapes) :
       LET s == e.shapes[k] IN
       /\ \E j \in 1..Len(e.geom) : e.geom[j].n = s.n
       /\ s.w = GeomOf(e, s.n).sw /\ s.h = GeomOf(e, s.n).sh

GeomSpecOk(e) == \A k \in 1..Len(e.geom) :
                   /\ e.geom[k].sw = SubbandWidth(e.w, e.d, e.dho, e.geom[k].n)
                   /\ e.geom[k].sh = SubbandHeight(e.h, e.d, e.dho, e.geom[k].n)

(* the design's coefficients for the recorded picture, band by band *)
CoeffSpecOk(e) ==
  LET spec == Encode(e.pic, e.f, e.fho, e.d, e.dho) IN
  \A k \in 1..Len(e.co) :
    LET c == e.co[k] IN
    c.a = spec[c.n][IF c.n = 0 THEN "DC" ELSE c.b]

Clause(e) ==
  IF e.ev # "dwt" THEN Verdict("UnknownEvent", TRUE)
  ELSE IF e.exc # "none" THEN Verdict("NoResult", TRUE)      \* an exception instead of a picture
  ELSE IF e.arrays /\ ~Reconstructs(e.pic, e.rec) THEN Verdict("PerfectReconstruction", TRUE)
  ELSE IF ~e.arrays /\ ~e.equal THEN Verdict("PerfectReconstruction", TRUE)
  ELSE IF ~ShapesOk(e) THEN Verdict("ShapesMatchSliceGeometry", TRUE)
  ELSE IF ~GeomSpecOk(e) THEN Verdict("SpecGeometry", FALSE)
  ELSE IF e.cmp /\ ~CoeffSpecOk(e) THEN Verdict("SpecCoefficients", FALSE)
  ELSE IF e.arrays /\ e.cmp /\ Decode(Encode(e.pic, e.f, e.fho, e.d, e.dho), e.w, e.h, e.f, e.fho, e.d, e.dho) # e.pic
       THEN Verdict("SpecDoesNotReconstruct", FALSE)
  ELSE Verdict("ok", FALSE)

TraceInit == l = 1 /\ bad = <<>>
TraceNext ==
  /\ l <= Len(Log)
  /\ l' = l + 1
  /\ LET e == Log[l]
         v == Clause(e) IN
     bad' = IF v.c = "ok" THEN bad
            ELSE Append(bad, [tid |-> e.tid, line |-> l, clause |-> v.c, alarm |-> v.alarm])
TraceSpec == TraceInit /\ [][TraceNext]_tvars

Report == l = Len(Log) + 1 => PrintT(<<"BAD", ToJson(bad)>>)
AllConsumed == TLCGet("stats").diameter - 1 = Len(Log)
=============================================================================
