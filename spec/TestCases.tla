------------------------------- MODULE TestCases -------------------------------
(* The life of one decoder test case (property C05):                                       *)
(*    Choose a configuration -> Generate (family, sub-case) -> Serialise -> Validate ->     *)
(*    Decode -> Relate to the base                                                          *)
(* TLC enumerates every abstract configuration x every family x every catalogued sub-case   *)
(* and checks that the catalogue (TestCasesOps) is coherent: every family has a relation,   *)
(* every test case that reaches the end has been judged by the relation its family          *)
(* documents, names are unique, the families named in the statement of C05 all carry a      *)
(* content relation.  The dump (one state per (configuration, family, sub-case)) is the     *)
(* list of expectations the driver executes against the real generators (G).                *)
EXTENDS TestCasesOps, TLC

Profiles == {"hq", "ld"}
Cfgs == {c \in [profile : Profiles, lossless : BOOLEAN, fragments : BOOLEAN, fields : BOOLEAN] :
           ~(c.profile = "ld" /\ c.lossless)}       \* lossless coding is defined for the HQ profile only

VARIABLES cfg, fam, sub, stage, judged, names
vars == <<cfg, fam, sub, stage, judged, names>>

None == [profile |-> "none", lossless |-> FALSE, fragments |-> FALSE, fields |-> FALSE]

Init == cfg = None /\ fam = "" /\ sub = <<>> /\ stage = "idle" /\ judged = "" /\ names = {}

Choose == /\ stage = "idle" /\ cfg = None
          /\ cfg' \in Cfgs
          /\ UNCHANGED <<fam, sub, stage, judged, names>>

Generate == /\ stage = "idle" /\ cfg # None
            /\ \E f \in Families :
                 /\ ~Omitted(cfg, f)
                 /\ \E s \in (IF NoSub(f) \/ Open(f) THEN {<<>>} ELSE SubCases(cfg, f)) :
                      /\ <<f, s>> \notin names
                      /\ fam' = f /\ sub' = s /\ names' = names \cup {<<f, s>>}
            /\ stage' = "generated"
            /\ UNCHANGED <<cfg, judged>>

Serialise == stage = "generated" /\ stage' = "serialised" /\ UNCHANGED <<cfg, fam, sub, judged, names>>
Validate  == stage = "serialised" /\ stage' = "validated" /\ UNCHANGED <<cfg, fam, sub, judged, names>>
Decode    == stage = "validated" /\ stage' = "decoded" /\ UNCHANGED <<cfg, fam, sub, judged, names>>
Relate    == /\ stage = "decoded"
             /\ judged' = Rel(fam).rel
             /\ stage' = "idle"
             /\ UNCHANGED <<cfg, fam, sub, names>>

Next == Choose \/ Generate \/ Serialise \/ Validate \/ Decode \/ Relate
Spec == Init /\ [][Next]_vars

(* --- coherence of the catalogue -------------------------------------------------------- *)
RelKinds == {"SameAsPlain", "Concat", "Numbers", "MidGrey", "AcceptOnly"}
TypeOK == /\ \A f \in Families : Rel(f).rel \in RelKinds
          /\ stage \in {"idle", "generated", "serialised", "validated", "decoded"}
\* the families the statement of C05 lists as varying only the encoding all carry a content relation
StatementFamilies == {"padding_data", "slice_padding_data", "slice_prefix_bytes", "repeated_sequence_headers",
                      "source_parameters_encodings", "extended_transform_parameters", "slice_size_scaler",
                      "absent_next_parse_offset", "concatenated_sequences"}
StatementCovered == \A f \in StatementFamilies : Rel(f).rel \in {"SameAsPlain", "Concat"}
\* picture-number sub-cases have 8 documented numbers, consecutive modulo 2^32; odd start only for frames
NumbersDocumented ==
  (fam = "picture_numbers" /\ stage # "idle") =>
     /\ Len(DocumentedNumbers(sub[1])) = 8
     /\ (sub[1] = "odd_first_picture" => ~cfg.fields)
\* sources are fixed per relation kind
SourcesKnown == \A f \in Families : Rel(f).rel # "AcceptOnly" => Rel(f).src \in {"static_sprite", "mid_gray"}
\* a name is generated once
NamesUnique == stage = "generated" => <<fam, sub>> \in names
\* mid-grey relations are only claimed for mid-grey sources
GreyOnlyForGreySource == \A f \in Families : Rel(f).grey => Rel(f).src = "mid_gray"

View == <<cfg, fam, sub, stage>>
=============================================================================
