------------------------------- MODULE TestCases -------------------------------
(* The life of one decoder test case (property C05):                                       *)
(*    Choose a configuration -> Generate (family, sub-case) -> Serialise -> Validate ->     *)
(*    Decode -> Relate to the base                                                          *)
(* TLC enumerates every abstract configuration x every family x every catalogued sub-case   *)
(* and checks that the catalogue (TestCasesOps) is coherent: every family has a relation,   *)
(* every test case that reaches the end has been judged by the relation its family          *)
(* documents, names are unique, the families named in the statement of C05 all carry a      *)
(* content relation.  The dump (one state per (configuration, signal range) reached by      *)
(* Choose, one per (expectation key, family, sub-case)) is the configuration space the       *)
(* driver instantiates and the list of expectations it executes against the real            *)
(* generators (G).                                                                          *)
EXTENDS TestCasesOps, TLC

Profiles == {"hq", "ld"}
(* the abstract configuration space: every combination of the dimensions the generators, the encoder   *)
(* and the validator branch on.  Excluded: lossless low delay (lossless coding is defined for the HQ   *)
(* profile only); a symmetric transform without a default quantisation matrix (not instantiated).      *)
Cfgs == {c \in [profile : Profiles, lossless : BOOLEAN, fragments : BOOLEAN, fields : BOOLEAN,
                asym : BOOLEAN, qm : QmClasses, range : RangeClasses, slice : SliceClasses,
                chroma : ChromaFormats] :
           /\ ~(c.profile = "ld" /\ c.lossless)
           /\ (c.qm = "custom_only" => c.asym)}

VARIABLES cfg, rng, info, fam, sub, stage, judged, names
vars == <<cfg, rng, info, fam, sub, stage, judged, names>>

None == [profile |-> "none", lossless |-> FALSE, fragments |-> FALSE, fields |-> FALSE,
         asym |-> FALSE, qm |-> "default", range |-> "preset_v2", slice |-> "small", chroma |-> "444"]
NoRange == <<0, 0, 0, 0>>
(* what the catalogue's expectations (families omitted, sub-cases) depend on; ExpKeyIsEnough shows    *)
(* that it is all they depend on, so the expectations are enumerated once per key                     *)
ExpKey(c) == [profile |-> c.profile, lossless |-> c.lossless, fields |-> c.fields, ver |-> MinVersion(c),
              qmcustom |-> c.qm = "custom"]
Rep(k) == [BaseCfg EXCEPT !.profile = k.profile, !.lossless = k.lossless, !.fields = k.fields,
                          !.fragments = (k.ver = 3), !.qm = IF k.qmcustom THEN "custom" ELSE "default"]
NoInfo == [dev |-> 0, key |-> ExpKey(None)]

Init == cfg = None /\ rng = NoRange /\ info = NoInfo /\ fam = "" /\ sub = <<>> /\ stage = "idle" /\ judged = "" /\ names = {}

(* a configuration and, within its range class, the concrete signal range; info.dev = in how many     *)
(* dimensions it differs from the base configuration (the quick tier instantiates every configuration *)
(* with dev <= 3, the thorough tier all of them); info.key = the key of its expectations              *)
Choose == /\ stage = "idle" /\ cfg = None
          /\ cfg' \in Cfgs
          /\ rng' \in RangesOf(cfg'.range)
          /\ info' = [dev |-> Deviations(cfg'), key |-> ExpKey(cfg')]
          /\ UNCHANGED <<fam, sub, stage, judged, names>>

Generate == /\ stage = "idle" /\ cfg # None
            /\ \E f \in Families :
                 /\ ~Omitted(cfg, f)
                 /\ \E s \in (IF NoSub(f) \/ Open(f) THEN {<<>>} ELSE SubCases(cfg, f)) :
                      /\ <<f, s>> \notin names
                      /\ fam' = f /\ sub' = s /\ names' = names \cup {<<f, s>>}
            /\ stage' = "generated"
            /\ UNCHANGED <<cfg, rng, info, judged>>

Serialise == stage = "generated" /\ stage' = "serialised" /\ UNCHANGED <<cfg, rng, info, fam, sub, judged, names>>
Validate  == stage = "serialised" /\ stage' = "validated" /\ UNCHANGED <<cfg, rng, info, fam, sub, judged, names>>
Decode    == stage = "validated" /\ stage' = "decoded" /\ UNCHANGED <<cfg, rng, info, fam, sub, judged, names>>
Relate    == /\ stage = "decoded"
             /\ judged' = Rel(fam).rel
             /\ stage' = "idle"
             /\ UNCHANGED <<cfg, rng, info, fam, sub, names>>

Next == Choose \/ Generate \/ Serialise \/ Validate \/ Decode \/ Relate
Spec == Init /\ [][Next]_vars

(* --- coherence of the catalogue -------------------------------------------------------- *)
RelKinds == {"SameAsPlain", "Concat", "Numbers", "MidGrey", "AcceptOnly"}
TypeOK == /\ \A f \in Families : Rel(f).rel \in RelKinds
          /\ stage \in {"idle", "generated", "serialised", "validated", "decoded"}
\* the families the statement of C05 lists as varying only the encoding all carry a content relation
StatementFamilies == {"padding_data", "slice_padding_data", "slice_prefix_bytes", "repeated_sequence_headers",
                      "source_parameters_encodings", "extended_transform_parameters", "slice_size_scaler",
                      "absent_next_parse_offset", "concatenated_sequences"}
StatementCovered == \A f \in StatementFamilies : Rel(f).rel \in {"SameAsPlain", "Concat"}
\* picture-number sub-cases have 8 documented numbers, consecutive modulo 2^32; odd start only for frames
NumbersDocumented ==
  (fam = "picture_numbers" /\ stage # "idle") =>
     /\ Len(DocumentedNumbers(sub[1])) = 8
     /\ (sub[1] = "odd_first_picture" => ~cfg.fields)
\* sources are fixed per relation kind
SourcesKnown == \A f \in Families : Rel(f).rel # "AcceptOnly" => Rel(f).src \in {"static_sprite", "mid_gray"}
\* a name is generated once
NamesUnique == stage = "generated" => <<fam, sub>> \in names
\* mid-grey relations are only claimed for mid-grey sources
GreyOnlyForGreySource == \A f \in Families : Rel(f).grey => Rel(f).src = "mid_gray"

(* --- coherence of the new dimensions ---------------------------------------------------- *)
\* the classification operators the trace spec applies to concrete projections invert the enumeration
ClassesInvert == cfg # None => /\ RangeClassOf(rng) = cfg.range
                               /\ \A c \in RangeClasses : RangesOf(c) # {}
\* version 3 is declared exactly when one of the version-3 features is used, each of them alone suffices
VersionRule == cfg # None =>
   /\ MinVersion(cfg) \in 1..3
   /\ (MinVersion(cfg) = 3) <=> (cfg.fragments \/ cfg.asym \/ cfg.range = "preset_v3")
   /\ (cfg.profile = "hq" => MinVersion(cfg) >= 2)
\* every single version-3 feature occurs alone in some configuration of the space (C05_3 class), and the
\* configurations in which only the luma block of a slice needs a slice_size_scaler above 1 occur for every
\* lossless / lossy kind (C05_4 class)
AloneV3(c) == Cardinality({x \in {"fragments", "asym", "range"} :
                 (x = "fragments" /\ c.fragments) \/ (x = "asym" /\ c.asym) \/ (x = "range" /\ c.range = "preset_v3")}) = 1
ASSUME SpaceCovers ==
   /\ \A p \in Profiles : \E c \in Cfgs : c.profile = p /\ AloneV3(c) /\ c.range = "preset_v3" /\ Deviations(c) <= 3
   /\ \A p \in Profiles : \E c \in Cfgs : c.profile = p /\ AloneV3(c) /\ c.asym /\ Deviations(c) <= 3
   /\ \A p \in Profiles : \E c \in Cfgs : c.profile = p /\ AloneV3(c) /\ c.fragments /\ Deviations(c) <= 3
   /\ \A ch \in ChromaFormats \ {"444"} : \E c \in Cfgs : c.lossless /\ c.chroma = ch /\ ScalerDependsOnLumaOnly(c) /\ Deviations(c) <= 3

ASSUME ExpKeyIsEnough ==
   \A c \in Cfgs : /\ ExpKey(Rep(ExpKey(c))) = ExpKey(c)
                    /\ \A f \in Families : /\ Omitted(c, f) = Omitted(Rep(ExpKey(c)), f)
                                             /\ SubCases(c, f) = SubCases(Rep(ExpKey(c)), f)

(* the configuration and its signal range are part of the view of the state reached by Choose only;   *)
(* a generated test case is viewed through the key of its expectations, its later life through the     *)
(* dimensions that life depends on                                                                     *)
LifeKey(c) == [ExpKey(c) EXCEPT !.ver = 0, !.qmcustom = FALSE]
View == <<IF fam = "" THEN <<cfg, rng>> ELSE <<None, NoRange>>,
          IF stage = "generated" THEN ExpKey(cfg) ELSE LifeKey(cfg), fam, sub, stage>>
=============================================================================
