----------------------------- MODULE BigNatTest -----------------------------
(* Self-test of BigNat.tla, run by the C12 driver on every run: limb arithmetic agrees with  *)
(* TLC's integers where those suffice, and satisfies the ring laws on multi-limb values.     *)
EXTENDS BigNat, TLC

VARIABLE done

Small == {0, 1, 2, 7, 32767, 32768, 32769, 46340, 65535, 65536, 1000003, 33554431, 1073741823}
Tiny  == {0, 1, 3, 181, 32767, 32768, 46340}
(* multi-limb values: a + b*2^30 + c*2^60 *)
Big(a, b, c) == BAdd(BFromNat(a), BAdd(BShift(BFromNat(b), 2), BShift(BFromNat(c), 4)))
Bigs == {Big(a, b, c) : a \in {0, 5, 1073741823}, b \in {0, 32768, 1073741823}, c \in {0, 1, 999999}}

AgreesWithIntegers ==
  /\ \A a, b \in Small : a + b < 2147483647 - 1 => BAdd(BFromNat(a), BFromNat(b)) = BFromNat(a + b)
  /\ \A a, b \in Small : BCmp(BFromNat(a), BFromNat(b)) = (IF a < b THEN -1 ELSE IF a > b THEN 1 ELSE 0)
  /\ \A a, b \in Small : a >= b => BSub(BFromNat(a), BFromNat(b)) = BFromNat(a - b)
  /\ \A a, b \in Tiny : BMul(BFromNat(a), BFromNat(b)) = BFromNat(a * b)
  /\ \A a \in Small, k \in {0, 1, 4, 32767} : a < 65536 => BMulSmall(BFromNat(a), k) = BFromNat(a * k)
  /\ \A a \in Small, b \in Small \ {0} : BIsFloorDiv(BFromNat(a \div b), BFromNat(a), BFromNat(b))
  /\ \A a \in Small, b \in Small \ {0} : ~BIsFloorDiv(BFromNat(a \div b + 1), BFromNat(a), BFromNat(b))
  /\ \A a \in Small : BToNat(BFromNat(a)) = a /\ BWellFormed(BFromNat(a))
  /\ \A k \in {0, 1, 14, 15, 16, 29, 30} : BPow2(k) = BFromNat(2 ^ k)

RingLaws ==
  /\ \A x, y \in Bigs : BMul(x, y) = BMul(y, x) /\ BAdd(x, y) = BAdd(y, x)
  /\ \A x, y \in Bigs : BSub(BAdd(x, y), y) = BNorm(x)
  /\ \A x \in Bigs, y, z \in {Big(5, 32768, 1), Big(1073741823, 1073741823, 999999), BZero} :
       BMul(x, BAdd(y, z)) = BAdd(BMul(x, y), BMul(x, z))
  /\ \A x, y \in Bigs : (BLt(x, y) \/ BEq(x, y) \/ BLt(y, x)) /\ ~(BLt(x, y) /\ BLt(y, x))
  /\ \A x \in Bigs, y \in Bigs : ~BIsZero(y) => BIsFloorDiv(x, BAdd(BMul(x, y), BSub(y, <<1>>)), y)
  /\ \A x \in Bigs : BWellFormed(x) /\ BMulSmall(x, 4) = BAdd(BAdd(x, x), BAdd(x, x))
  /\ BPow2(75) = BShift(<<1>>, 5)

Signed ==
  LET p == [s |-> 1, m |-> Big(7, 3, 1)]
      n == [s |-> -1, m |-> Big(9, 3, 1)]
      z == [s |-> 0, m |-> BZero] IN
  /\ SAbsDiff(p, n) = BAdd(p.m, n.m) /\ SAbsDiff(p, p) = BZero /\ SAbsDiff(z, n) = n.m
  /\ SAbsDiff(n, [s |-> -1, m |-> Big(7, 3, 1)]) = <<2>>
  /\ SLt(n, z) /\ SLt(z, p) /\ SLt(n, p) /\ ~SLt(p, n) /\ SLt([s |-> -1, m |-> Big(9, 3, 1)], [s |-> -1, m |-> Big(7, 3, 1)])
  /\ SWellFormed(p) /\ SWellFormed(z) /\ ~SWellFormed([s |-> 0, m |-> <<1>>])

Init == done = FALSE
Next == done' = TRUE
Spec == Init /\ [][Next]_done
AllGood == AgreesWithIntegers /\ RingLaws /\ Signed
=============================================================================
