------------------------- MODULE SeqCompletionTrace -------------------------
(* Judges recorded calls of make_matching_sequence.  One line per call:                     *)
(*   [tid, req, pats (ASTs), limit, res "seq" | "impossible", w, short?, greedy?]           *)
(* `short`/`greedy` are present when the case came out of SeqCompletion.tla (TLC computed   *)
(* them there); otherwise they are computed here.  Verdicts are total; `dev` says whether   *)
(* the DeviationGreedyTake search predicts the recorded outcome (attribution of D6 only).   *)
EXTENDS SeqCompletionOps, Json, IOUtils, TLC, TLCExt

Log == ndJsonDeserialize(IOEnv.TRACE_FILE)

VARIABLES l, bad
tvars == <<l, bad>>

Has(e, f) == f \in DOMAIN e

Verdict(e) ==
  LET c  == [req |-> e.req, pats |-> e.pats, limit |-> e.limit]
      sh == IF Has(e, "short") THEN e.short ELSE Shortest(c)
      gr == IF Has(e, "greedy") THEN e.greedy ELSE GreedyShortest(c)
      dv == IF e.res = "seq" THEN gr = Len(e.w) ELSE gr = Impossible IN
  IF \E k \in 1..Len(e.pats) : ~EndOK(e.pats[k], TRUE)
  THEN [c |-> "OutOfDomain", dev |-> FALSE, k |-> 0]      \* a '$' followed by something mandatory: not judged
  ELSE IF e.res = "seq"
  THEN IF ~Embeds(e.w, e.req, Len(e.w))      THEN [c |-> "NotRequiredPlusInsertions", dev |-> FALSE, k |-> 0]
       ELSE IF ~Embeds(e.w, e.req, e.limit)  THEN [c |-> "MoreConsecutiveInsertionsThanPermitted", dev |-> FALSE, k |-> e.limit]
       ELSE IF ~MatchesAll(e.w, e.pats)      THEN [c |-> "DoesNotMatchPattern", dev |-> FALSE, k |-> FirstUnmatched(e.w, e.pats)]
       ELSE IF sh = Impossible \/ Len(e.w) < sh THEN [c |-> "SpecFoundNothingThatShort", dev |-> FALSE, k |-> sh]
       ELSE IF Len(e.w) > sh                 THEN [c |-> "NotShortest", dev |-> dv, k |-> sh]
       ELSE [c |-> "ok", dev |-> FALSE, k |-> 0]
  ELSE IF sh # Impossible THEN [c |-> "ImpossibleButCompletionExists", dev |-> dv, k |-> sh]
       ELSE [c |-> "ok", dev |-> FALSE, k |-> 0]

TraceInit == l = 1 /\ bad = <<>>

TraceNext ==
  /\ l <= Len(Log)
  /\ l' = l + 1
  /\ LET e == Log[l]
         v == Verdict(e) IN
     bad' = IF v.c = "ok" THEN bad
            ELSE Append(bad, [tid |-> e.tid, line |-> l, clause |-> v.c, alarm |-> v.c # "OutOfDomain", dev |-> v.dev, k |-> v.k])

TraceSpec == TraceInit /\ [][TraceNext]_tvars

Report == l = Len(Log) + 1 => PrintT(<<"BAD", ToJson(bad)>>)
AllConsumed == TLCGet("stats").diameter - 1 = Len(Log)
=============================================================================
