---------------------------- MODULE PictureGenOps ----------------------------
(* Pure operators for C22 (picture generators produce well-formed pictures for any regular  *)
(* format), shared by PictureGen.tla (the space of formats) and PictureGenTrace.tla.        *)
EXTENDS SeqHeaderOps

(* intlog2 (5.5.3): the least k with 2^k >= n, for 1 <= n <= 2^20 *)
P2(k) == 2 ^ k
IntLog2(n) == CHOOSE k \in 0..20 : P2(k) >= n /\ (k = 0 \/ P2(k - 1) < n)

HSub(vp) == IF vp.color_diff_format_index \in {1, 2} THEN 2 ELSE 1
VSub(vp) == IF vp.color_diff_format_index = 2 THEN 2 ELSE 1

(* the domain of the property: "frame size is a multiple of its subsampling (and, for       *)
(* interlaced sources or field coding, of twice the vertical subsampling)"                  *)
RegularFormat(vp, pcm) ==
  /\ vp.frame_width >= 1 /\ vp.frame_height >= 1
  /\ vp.frame_width % HSub(vp) = 0
  /\ vp.frame_height % (VSub(vp) * (IF vp.source_sampling = 1 \/ pcm = 1 THEN 2 ELSE 1)) = 0
  /\ vp.luma_excursion >= 1 /\ vp.color_diff_excursion >= 1

(* (11.6.2) picture_dimensions and (11.6.3) video_depth: the coded size and depth of each component *)
Coded(vp, pcm) ==
  LET lh == IF pcm = 1 THEN vp.frame_height \div 2 ELSE vp.frame_height
      ch == (vp.frame_height \div VSub(vp)) \div (IF pcm = 1 THEN 2 ELSE 1)
  IN [yw |-> vp.frame_width, yh |-> lh, cw |-> vp.frame_width \div HSub(vp), ch |-> ch,
      yd |-> IntLog2(vp.luma_excursion + 1), cd |-> IntLog2(vp.color_diff_excursion + 1)]

(* one recorded picture p = [yh, yw, yrag, c1h, c1w, c1rag, c2h, c2w, c2rag,                 *)
(*                           ymin, ymax, c1min, c1max, c2min, c2max, allint]                *)
DimsOK(p, c) == /\ p.yh = c.yh /\ p.yw = c.yw /\ p.c1h = c.ch /\ p.c1w = c.cw /\ p.c2h = c.ch /\ p.c2w = c.cw
                /\ ~p.yrag /\ ~p.c1rag /\ ~p.c2rag
RangeOK(p, c) == /\ 0 <= p.ymin /\ p.ymax <= P2(c.yd) - 1
                 /\ 0 <= p.c1min /\ p.c1max <= P2(c.cd) - 1
                 /\ 0 <= p.c2min /\ p.c2max <= P2(c.cd) - 1

(* spec-only predictions (never an alarm) *)
FramesOf(gen) == IF gen = "moving_sprite" THEN 10 ELSE 1
ExpectedCount(gen, pcm) == FramesOf(gen) * (IF pcm = 1 THEN 2 ELSE 1)
MidGrayOK(p, c) == /\ p.ymin = P2(c.yd - 1) /\ p.ymax = P2(c.yd - 1)
                   /\ p.c1min = P2(c.cd - 1) /\ p.c1max = P2(c.cd - 1)
=============================================================================
