---------------------------- MODULE SeqHeaderOps ----------------------------
(* Pure operators for sequence headers (SMPTE ST 2042-1 section 11), shared by               *)
(*   SeqHeaderFormats.tla  (the space of video formats near each base video format, C15),    *)
(*   SeqHeaderTrace.tla    (validation of headers recorded from the real encoder/validator), *)
(*   LevelTables.tla       (synthetic level tables, C16).                                    *)
(*                                                                                           *)
(* The tables (base video formats, presets, level columns) are generated at run time from    *)
(* the third-party package vc2_data_tables (module VC2TablesF in a scratch directory), so    *)
(* nothing here is hand-copied from the standard's tables.                                   *)
(*                                                                                           *)
(* Three descriptions are kept apart:                                                        *)
(*   Decode*     what a header MEANS: the standard's 11.4 source_parameters on an abstract   *)
(*               encoding (per group: flag, index, custom values);                           *)
(*   *Options    the DESIGN of the encoder: which encodings it may emit for a wanted format  *)
(*               starting from a base format under one level column (one operator per        *)
(*               function of encoder/sequence_header.py);                                    *)
(*   LevelAccepts what the validator's incremental level check amounts to.                   *)
EXTENDS Integers, Sequences, FiniteSets, SequencesExt, TLC, VC2TablesF

(* The tables come from module VC2TablesF.  The copy in spec/ is a PLACEHOLDER (so that SANY can parse   *)
(* this module at setup time); every run generates the real module from vc2_data_tables into the scratch *)
(* directory, where it replaces the placeholder (T_Generated distinguishes them).  They are definitions  *)
(* rather than CONSTANTS bound with `<-` in the cfg because TLC re-evaluates a `<-` substitution on       *)
(* every reference (measured: 10x slower).                                                                *)
ASSUME T_Generated
BaseFormats  == T_BaseFormats    \* <<record of the 13 base-video-format parameters>>, index b+1
FrameRates   == T_FrameRates     \* <<<<numer, denom>>, ...>>            index = preset index (1..)
AspectRatios == T_AspectRatios   \* <<<<numer, denom>>, ...>>
SignalRanges == T_SignalRanges   \* <<<<luma_offset, luma_excursion, color_diff_offset, color_diff_excursion>>, ...>>
ColorSpecs   == T_ColorSpecs     \* <<<<primaries, matrix, transfer>>, ...>>  index = preset index + 1 (preset 0 exists)
LevelColumns == T_LevelColumns   \* <<[key |-> value set], ...>> one per allowed combination of the level table

(* ------------------------------------------------------------------------ small helpers *)
MaxOf(S) == CHOOSE x \in S : \A y \in S : x >= y
MinOf(S) == CHOOSE x \in S : \A y \in S : x <= y
Max2(a, b) == IF a >= b THEN a ELSE b
Pow2(n) == IF n = 0 THEN 1 ELSE IF n = 1 THEN 2 ELSE IF n = 2 THEN 4 ELSE IF n = 3 THEN 8 ELSE IF n = 4 THEN 16 ELSE 32

(* NB: no RECURSIVE operators in this module: TLC does not cache lazily evaluated arguments inside  *)
(* recursive operators, which made nested calls exponentially slow; folds use SequencesExt instead. *)
AscSeq(S) == SetToSortSeq(S, LAMBDA a, b : a < b)

(* a value set of the constraint table: the wildcard or a set of inclusive ranges (booleans are 0/1) *)
In(v, s) == s.any \/ \E r \in s.rs : r[1] <= v /\ v <= r[2]
Allowed(c, key, v) == In(v, c[key])

NumBases == Len(BaseFormats)
Bases    == 0..(NumBases - 1)
Base(b)  == BaseFormats[b + 1]

VPKeys == {"frame_width", "frame_height", "color_diff_format_index", "source_sampling", "top_field_first",
           "frame_rate_numer", "frame_rate_denom", "pixel_aspect_ratio_numer", "pixel_aspect_ratio_denom",
           "clean_width", "clean_height", "left_offset", "top_offset",
           "luma_offset", "luma_excursion", "color_diff_offset", "color_diff_excursion",
           "color_primaries_index", "color_matrix_index", "transfer_function_index"}

(* (11.4.2) set_source_defaults *)
Defaults(b) ==
  LET B  == Base(b)
      fr == FrameRates[B.frame_rate_index]
      ar == AspectRatios[B.pixel_aspect_ratio_index]
      sr == SignalRanges[B.signal_range_index]
      cs == ColorSpecs[B.color_spec_index + 1]
  IN [frame_width |-> B.frame_width, frame_height |-> B.frame_height,
      color_diff_format_index |-> B.color_diff_format_index,
      source_sampling |-> B.source_sampling, top_field_first |-> B.top_field_first,
      frame_rate_numer |-> fr[1], frame_rate_denom |-> fr[2],
      pixel_aspect_ratio_numer |-> ar[1], pixel_aspect_ratio_denom |-> ar[2],
      clean_width |-> B.clean_width, clean_height |-> B.clean_height,
      left_offset |-> B.left_offset, top_offset |-> B.top_offset,
      luma_offset |-> sr[1], luma_excursion |-> sr[2],
      color_diff_offset |-> sr[3], color_diff_excursion |-> sr[4],
      color_primaries_index |-> cs[1], color_matrix_index |-> cs[2],
      transfer_function_index |-> cs[3]]

(* ------------------------------------------------------------------ the eight+three groups *)
(* fs frame_size, cd color_diff_sampling_format, sc scan_format, fr frame_rate,              *)
(* ar pixel_aspect_ratio, ca clean_area, sr signal_range, cs color_spec (+ cp, cm, tf)       *)
SimpleGroups == <<"fs", "cd", "sc", "fr", "ar", "ca", "sr">>
ColorParts   == <<"cp", "cm", "tf">>

Fields(g) ==
  CASE g = "fs" -> <<"frame_width", "frame_height">>
    [] g = "cd" -> <<"color_diff_format_index">>
    [] g = "sc" -> <<"source_sampling">>
    [] g = "fr" -> <<"frame_rate_numer", "frame_rate_denom">>
    [] g = "ar" -> <<"pixel_aspect_ratio_numer", "pixel_aspect_ratio_denom">>
    [] g = "ca" -> <<"clean_width", "clean_height", "left_offset", "top_offset">>
    [] g = "sr" -> <<"luma_offset", "luma_excursion", "color_diff_offset", "color_diff_excursion">>
    [] g = "cp" -> <<"color_primaries_index">>
    [] g = "cm" -> <<"color_matrix_index">>
    [] g = "tf" -> <<"transfer_function_index">>
    [] g = "cs" -> <<"color_primaries_index", "color_matrix_index", "transfer_function_index">>

FlagKey(g) ==
  CASE g = "fs" -> "custom_dimensions_flag"
    [] g = "cd" -> "custom_color_diff_format_flag"
    [] g = "sc" -> "custom_scan_format_flag"
    [] g = "fr" -> "custom_frame_rate_flag"
    [] g = "ar" -> "custom_pixel_aspect_ratio_flag"
    [] g = "ca" -> "custom_clean_area_flag"
    [] g = "sr" -> "custom_signal_range_flag"
    [] g = "cs" -> "custom_color_spec_flag"
    [] g = "cp" -> "custom_color_primaries_flag"
    [] g = "cm" -> "custom_color_matrix_flag"
    [] g = "tf" -> "custom_transfer_function_flag"

HasPresets(g) == g \in {"fr", "ar", "sr"}
IndexKey(g) ==
  CASE g = "fr" -> "frame_rate_index"
    [] g = "ar" -> "pixel_aspect_ratio_index"
    [] g = "sr" -> "custom_signal_range_index"
    [] g = "cs" -> "color_spec_index"
Presets(g) ==
  CASE g = "fr" -> FrameRates
    [] g = "ar" -> AspectRatios
    [] g = "sr" -> SignalRanges

Vals(vp, g) == [j \in 1..Len(Fields(g)) |-> vp[Fields(g)[j]]]
SetFields(vp, fs, vals) ==
  [k \in DOMAIN vp |-> IF \E j \in 1..Len(fs) : fs[j] = k
                       THEN vals[CHOOSE j \in 1..Len(fs) : fs[j] = k] ELSE vp[k]]

(* an abstract option of one group: f = custom flag (0/1; -1 = group absent from the header), *)
(* i = preset index (-1 = no index field), v = explicitly coded values                        *)
Opt(f, i, v) == [f |-> f, i |-> i, v |-> v]
Absent == Opt(-1, -1, <<>>)

(* ----------------------------------------------------------------- what a header means (11.4) *)
WellFormedOpt(g, o) ==
  /\ o.f \in {0, 1}
  /\ o.f = 0 => (o.i = -1 /\ o.v = <<>>)
  /\ (o.f = 1 /\ HasPresets(g)) =>
        \/ (o.i = 0 /\ Len(o.v) = Len(Fields(g)))
        \/ (o.i \in 1..Len(Presets(g)) /\ o.v = <<>>)
  /\ (o.f = 1 /\ ~HasPresets(g)) => (o.i = -1 /\ Len(o.v) = Len(Fields(g)))

WellFormed(e) ==
  /\ \A j \in 1..Len(SimpleGroups) : WellFormedOpt(SimpleGroups[j], e[SimpleGroups[j]])
  /\ e.cs.f \in {0, 1}
  /\ e.cs.f = 0 => (e.cs.i = -1 /\ e.cp = Absent /\ e.cm = Absent /\ e.tf = Absent)
  /\ e.cs.f = 1 => e.cs.i \in 0..(Len(ColorSpecs) - 1)
  /\ (e.cs.f = 1 /\ e.cs.i # 0) => (e.cp = Absent /\ e.cm = Absent /\ e.tf = Absent)
  /\ (e.cs.f = 1 /\ e.cs.i = 0) => \A j \in 1..3 : WellFormedOpt(ColorParts[j], e[ColorParts[j]])

(* 11.4.3 - 11.4.9: value of the j-th field of group g after the group's option o, given the value d
   it had before *)
FieldAfter(g, j, o, d) ==
  IF o.f # 1 THEN d
  ELSE IF HasPresets(g) /\ o.i # 0 THEN Presets(g)[o.i][j]
  ELSE o.v[j]

(* 11.4.10: preset_color_spec(index) first (also for index 0), then the three overrides *)
ColorAfter(j, e, d) ==
  IF e.cs.f = 0 THEN d
  ELSE LET p == ColorSpecs[e.cs.i + 1][j]
       IN IF e.cs.i # 0 THEN p ELSE FieldAfter(ColorParts[j], 1, e[ColorParts[j]], p)

(* (11.4.1) source_parameters: start from the base format's defaults, apply the groups in order *)
DecodeHeader(b, e) ==
  LET D == Defaults(b) IN
  [frame_width |-> FieldAfter("fs", 1, e.fs, D.frame_width),
   frame_height |-> FieldAfter("fs", 2, e.fs, D.frame_height),
   color_diff_format_index |-> FieldAfter("cd", 1, e.cd, D.color_diff_format_index),
   source_sampling |-> FieldAfter("sc", 1, e.sc, D.source_sampling),
   top_field_first |-> D.top_field_first,
   frame_rate_numer |-> FieldAfter("fr", 1, e.fr, D.frame_rate_numer),
   frame_rate_denom |-> FieldAfter("fr", 2, e.fr, D.frame_rate_denom),
   pixel_aspect_ratio_numer |-> FieldAfter("ar", 1, e.ar, D.pixel_aspect_ratio_numer),
   pixel_aspect_ratio_denom |-> FieldAfter("ar", 2, e.ar, D.pixel_aspect_ratio_denom),
   clean_width |-> FieldAfter("ca", 1, e.ca, D.clean_width),
   clean_height |-> FieldAfter("ca", 2, e.ca, D.clean_height),
   left_offset |-> FieldAfter("ca", 3, e.ca, D.left_offset),
   top_offset |-> FieldAfter("ca", 4, e.ca, D.top_offset),
   luma_offset |-> FieldAfter("sr", 1, e.sr, D.luma_offset),
   luma_excursion |-> FieldAfter("sr", 2, e.sr, D.luma_excursion),
   color_diff_offset |-> FieldAfter("sr", 3, e.sr, D.color_diff_offset),
   color_diff_excursion |-> FieldAfter("sr", 4, e.sr, D.color_diff_excursion),
   color_primaries_index |-> ColorAfter(1, e, D.color_primaries_index),
   color_matrix_index |-> ColorAfter(2, e, D.color_matrix_index),
   transfer_function_index |-> ColorAfter(3, e, D.transfer_function_index)]

(* (11.2.2) the lowest major_version the header's features permit (version_constraints.py) *)
HeaderVersion(profile, e) ==
  LET V(cond) == IF cond THEN 3 ELSE 1
  IN MaxOf({1, IF profile = 3 THEN 2 ELSE 1,
            V(e.fr.f = 1 /\ e.fr.i > 11),
            V(e.sr.f = 1 /\ e.sr.i > 4),
            V(e.cs.f = 1 /\ e.cs.i > 4),
            V(e.cs.f = 1 /\ e.cs.i = 0 /\ e.cp.f = 1 /\ e.cp.v[1] > 3),
            V(e.cs.f = 1 /\ e.cs.i = 0 /\ e.cm.f = 1 /\ e.cm.v[1] > 3),
            V(e.cs.f = 1 /\ e.cs.i = 0 /\ e.tf.f = 1 /\ e.tf.v[1] > 3)})

(* ------------------------------------------- serialising several headers one after the other *)
(* The headers of one configuration are Python objects on a heap; serialising a header          *)
(* (autofill_and_serialise_stream) WRITES into it: autofill_major_version replaces the AUTO      *)
(* sentinel in the header's parse-parameters object by the (11.2.2) minimal version of the       *)
(* stream being serialised, and leaves a version that is already there alone.  A header is       *)
(* [e |-> abstract encoding, cell |-> the heap cell its parse parameters live in]; one           *)
(* Serialise step per header, in the order given; the result is the major_version each           *)
(* serialised header carries.  In the design of the encoder every yielded header owns its        *)
(* parse parameters (cell = its own position: OwnCells), so the order does not matter; two       *)
(* headers sharing a cell (aliasing) is the NAMED DEVIATION DeviationAliasedParseParameters,     *)
(* under which every later header inherits the version of the first one serialised.              *)
Auto == 0
SerialiseStep(profile, st, h) ==
  LET cur == st.heap[h.cell]
      v   == IF cur = Auto THEN HeaderVersion(profile, h.e) ELSE cur
  IN [heap |-> [st.heap EXCEPT ![h.cell] = v], out |-> Append(st.out, v)]
SerialiseInOrder(profile, hs) ==
  FoldLeft(LAMBDA st, h : SerialiseStep(profile, st, h),
           [heap |-> [c \in 1..Len(hs) |-> Auto], out |-> <<>>], hs).out
OwnCells(es)    == [t \in 1..Len(es) |-> [e |-> es[t], cell |-> t]]
SharedCell(es)  == [t \in 1..Len(es) |-> [e |-> es[t], cell |-> 1]]
MinimalVersions(profile, es) == [t \in 1..Len(es) |-> HeaderVersion(profile, es[t])]
DeviationAliasedParseParameters(hs) == \E t \in 1..Len(hs) : hs[t].cell # t

(* ------------------------------------------------------- what the validator's level check is *)
(* assert_level_constraint is incremental (each value must be allowed by some column that      *)
(* allows everything seen before); for a complete header this amounts to: one column allows    *)
(* every coded value.                                                                          *)
OptAllowed(c, g, o) ==
  \/ o.f = -1
  \/ /\ Allowed(c, FlagKey(g), o.f)
     /\ (o.f = 1 /\ o.i # -1) => Allowed(c, IndexKey(g), o.i)
     /\ (o.f = 1 /\ o.v # <<>>) => \A j \in 1..Len(o.v) : Allowed(c, Fields(g)[j], o.v[j])

ColumnAllowsFields(c, h) ==
  /\ Allowed(c, "level", h.level) /\ Allowed(c, "profile", h.profile)
  /\ Allowed(c, "minor_version", 0)
  /\ Allowed(c, "base_video_format", h.b)
  /\ \A j \in 1..Len(SimpleGroups) : OptAllowed(c, SimpleGroups[j], h.e[SimpleGroups[j]])
  /\ OptAllowed(c, "cs", h.e.cs)
  /\ \A j \in 1..3 : OptAllowed(c, ColorParts[j], h.e[ColorParts[j]])
  /\ Allowed(c, "picture_coding_mode", h.pcm)
ColumnAllowsHeader(c, h) == ColumnAllowsFields(c, h) /\ Allowed(c, "major_version", h.version)

LevelAccepts(h) == \E k \in 1..Len(LevelColumns) : ColumnAllowsHeader(LevelColumns[k], h)

(* NAMED DEVIATION (known finding, see harness/notes/C15.md): (11.2.2) makes major_version the LOWEST   *)
(* version the stream's features permit (autofill and the validator's end-of-sequence check agree on    *)
(* that), but the columns of levels 64 and 65 demand major_version = 2 while their low-delay streams    *)
(* use no version-2 feature: every header is fine for the level except for the version number.          *)
DeviationLevelVersion(h) ==
  /\ \E k \in 1..Len(LevelColumns) : ColumnAllowsFields(LevelColumns[k], h)
  /\ ~LevelAccepts(h)

(* ------------------------------------------------------------------- design of the encoder *)
(* iter_custom_options_dicts: default (if the base already has the values and the level lets  *)
(* the flag be clear), every matching preset, then fully custom                               *)
GroupOptions(g, bvp, vp, c) ==
  LET fl   == Fields(g)
      n    == Len(fl)
      want == [j \in 1..n |-> vp[fl[j]]]
      have == [j \in 1..n |-> bvp[fl[j]]]
      fk   == FlagKey(g)
      hp   == HasPresets(g)
      may1 == Allowed(c, fk, 1)
      d  == IF have = want /\ Allowed(c, fk, 0) THEN <<Opt(0, -1, <<>>)>> ELSE <<>>
      ok == IF hp /\ may1
            THEN {i \in 1..Len(Presets(g)) : Presets(g)[i] = want /\ Allowed(c, IndexKey(g), i)}
            ELSE {}
      ps == IF ok = {} THEN <<>> ELSE LET a == AscSeq(ok) IN [j \in 1..Len(a) |-> Opt(1, a[j], <<>>)]
      cu == IF /\ may1
               /\ (hp => Allowed(c, IndexKey(g), 0))
               /\ \A j \in 1..n : Allowed(c, fl[j], want[j])
            THEN <<Opt(1, IF hp THEN 0 ELSE -1, want)>> ELSE <<>>
  IN d \o ps \o cu

(* zip_longest_repeating_final_value over a sequence of sequences; empty if any is empty *)
ZipRepeat(ss) ==
  IF \E j \in 1..Len(ss) : Len(ss[j]) = 0 THEN <<>>
  ELSE LET n == MaxOf({Len(ss[j]) : j \in 1..Len(ss)})
       IN [t \in 1..n |-> [j \in 1..Len(ss) |-> ss[j][IF t <= Len(ss[j]) THEN t ELSE Len(ss[j])]]]

(* iter_color_spec_options *)
ColorOptions(bvp, vp, c) ==
  LET same == \A j \in 1..3 : bvp[Fields("cs")[j]] = vp[Fields("cs")[j]]
      d  == IF same /\ Allowed(c, "custom_color_spec_flag", 0)
            THEN <<[cs |-> Opt(0, -1, <<>>), cp |-> Absent, cm |-> Absent, tf |-> Absent]>> ELSE <<>>
      ok == {i \in 1..(Len(ColorSpecs) - 1) : /\ ColorSpecs[i + 1] = Vals(vp, "cs")
                                               /\ Allowed(c, "custom_color_spec_flag", 1)
                                               /\ Allowed(c, "color_spec_index", i)}
      ps == IF ok = {} THEN <<>>
            ELSE LET a == AscSeq(ok)
                 IN [j \in 1..Len(a) |-> [cs |-> Opt(1, a[j], <<>>), cp |-> Absent, cm |-> Absent, tf |-> Absent]]
      cb == SetFields(bvp, Fields("cs"), ColorSpecs[1])      \* what index 0 resets the colour to
      z  == IF Allowed(c, "custom_color_spec_flag", 1) /\ Allowed(c, "color_spec_index", 0)
            THEN ZipRepeat(<<GroupOptions("cp", cb, vp, c), GroupOptions("cm", cb, vp, c),
                             GroupOptions("tf", cb, vp, c)>>)
            ELSE <<>>
      cu == [t \in 1..Len(z) |-> [cs |-> Opt(1, 0, <<>>), cp |-> z[t][1], cm |-> z[t][2], tf |-> z[t][3]]]
  IN d \o ps \o cu

(* iter_source_parameter_options: top_field_first cannot be coded (11.3) *)
SourceOptions(bvp, vp, c) ==
  IF bvp.top_field_first # vp.top_field_first THEN <<>>
  ELSE LET z == ZipRepeat(<<GroupOptions("fs", bvp, vp, c), GroupOptions("cd", bvp, vp, c),
                            GroupOptions("sc", bvp, vp, c), GroupOptions("fr", bvp, vp, c),
                            GroupOptions("ar", bvp, vp, c), GroupOptions("ca", bvp, vp, c),
                            GroupOptions("sr", bvp, vp, c), ColorOptions(bvp, vp, c)>>)
       IN [t \in 1..Len(z) |->
             [fs |-> z[t][1], cd |-> z[t][2], sc |-> z[t][3], fr |-> z[t][4], ar |-> z[t][5],
              ca |-> z[t][6], sr |-> z[t][7],
              cs |-> z[t][8].cs, cp |-> z[t][8].cp, cm |-> z[t][8].cm, tf |-> z[t][8].tf]]

(* ------------------------------------------------ codec features -> constrained level values *)
(* picture_dimensions (11.6.2) and the DC-subband sizes used by slices_have_same_dimensions     *)
PadTo(x, m) == ((x + m - 1) \div m) * m
SameSliceDims(vp, pcm, ft) ==
  LET lw  == vp.frame_width
      lh0 == vp.frame_height
      cw  == IF vp.color_diff_format_index \in {1, 2} THEN lw \div 2 ELSE lw
      ch0 == IF vp.color_diff_format_index = 2 THEN lh0 \div 2 ELSE lh0
      lh  == IF pcm = 1 THEN lh0 \div 2 ELSE lh0
      ch  == IF pcm = 1 THEN ch0 \div 2 ELSE ch0
      sx  == Pow2(ft.dwt_depth + ft.dwt_depth_ho)
      sy  == Pow2(ft.dwt_depth)
      DC(w, s) == PadTo(w, s) \div s
  IN /\ DC(lw, sx) % ft.slices_x = 0 /\ DC(lh, sy) % ft.slices_y = 0
     /\ DC(cw, sx) % ft.slices_x = 0 /\ DC(ch, sy) % ft.slices_y = 0

(* codec_features_to_trivial_level_constraints: the values with which the encoder filters the table *)
(* (ft.sb_num / ft.sb_den = picture_bytes / number of slices as a reduced fraction; low delay only)   *)
CV(level, pcm, vp, ft) ==
  LET common == [level |-> level, profile |-> ft.profile, picture_coding_mode |-> pcm,
                 wavelet_index |-> ft.wavelet_index, dwt_depth |-> ft.dwt_depth,
                 slices_x |-> ft.slices_x, slices_y |-> ft.slices_y,
                 slices_have_same_dimensions |-> IF SameSliceDims(vp, pcm, ft) THEN 1 ELSE 0,
                 custom_quant_matrix |-> ft.custom_quant_matrix]
  IN IF ft.profile = 0
     THEN common @@ [slice_bytes_numerator |-> ft.sb_num, slice_bytes_denominator |-> ft.sb_den]
     ELSE common @@ [slice_prefix_bytes |-> 0]

(* filter_constraint_table *)
ColumnMatches(c, cv) == Allowed(c, "level", cv.level) /\ \A key \in DOMAIN cv : Allowed(c, key, cv[key])
MatchingColumns(cv) == AscSeq({k \in 1..Len(LevelColumns) : ColumnMatches(LevelColumns[k], cv)})

(* iter_sequence_headers restricted to one base format: every matching column in table order;  *)
(* cols = MatchingColumns(CV(..)) is passed in so that it is computed once per configuration    *)
HeadersForBase(cols, vp, b) ==
  FlattenSeq([j \in 1..Len(cols) |->
                IF Allowed(LevelColumns[cols[j]], "base_video_format", b)
                THEN SourceOptions(Defaults(b), vp, LevelColumns[cols[j]]) ELSE <<>>])

(* rank_allowed_base_video_format_similarity, as a set (the ranking is not part of the property) *)
AllowedBases(cols, vp) ==
  {b \in Bases : /\ Base(b).top_field_first = vp.top_field_first
                 /\ \E j \in 1..Len(cols) : Allowed(LevelColumns[cols[j]], "base_video_format", b)}

(* regular formats (the domain of the property): picture dimensions divide the frame dimensions   *)
(* (11.6.2 + errata checked by the validator), clean area inside the frame, non-zero ratios        *)
Regular(vp, pcm) ==
  LET hs == IF vp.color_diff_format_index \in {1, 2} THEN 2 ELSE 1
      vs == (IF vp.color_diff_format_index = 2 THEN 2 ELSE 1) * (IF pcm = 1 THEN 2 ELSE 1)
  IN /\ vp.frame_width >= hs /\ vp.frame_height >= vs
     /\ vp.frame_width % hs = 0 /\ vp.frame_height % vs = 0
     /\ vp.clean_width + vp.left_offset <= vp.frame_width
     /\ vp.clean_height + vp.top_offset <= vp.frame_height
     /\ vp.frame_rate_numer > 0 /\ vp.frame_rate_denom > 0
     /\ vp.pixel_aspect_ratio_numer > 0 /\ vp.pixel_aspect_ratio_denom > 0
     /\ vp.luma_excursion >= 1 /\ vp.color_diff_excursion >= 1
=============================================================================
