--------------------------- MODULE TestCaseGenOps ---------------------------
(* File-system semantics of the operations a test-case-generator worker performs on the    *)
(* shared output tree (vc2_conformance/scripts/vc2_test_case_generator/{cli,worker}.py),   *)
(* property C24.  Pure operators, shared by the interleaving model (TestCaseGen), the      *)
(* abstract lemma (TestCaseGenLemma) and the trace specification (TestCaseGenTrace).        *)
(*                                                                                         *)
(* fs     : function  path -> [d : BOOLEAN, c : content]   (path = tuple of components     *)
(*          relative to the working directory; <<>> = the working directory, always a      *)
(*          directory; content = sequence of chunk identities <<worker, op index>>)        *)
(* local  : [pc, stk, obs, fail] of one worker: program counter into its operation list,   *)
(*          the frames of a running os.makedirs call, what it has observed of the file     *)
(*          system so far, and "" or the error that killed it.                             *)
(* An operation is a record [k, p, q, x]:                                                  *)
(*   makedirs p x   os.makedirs(p, exist_ok = (x=1)) exactly as CPython 3 does it: check   *)
(*                  the parent, recurse (swallowing FileExistsError of the recursion),     *)
(*                  mkdir, on EEXIST re-check isdir when exist_ok -- each of these is a     *)
(*                  separate atomic step, so other workers can run in between              *)
(*   mkdir p x      a bare os.mkdir(p); x=1: an existing p is tolerated by the caller      *)
(*   guardmk p      `if not exists(p): mkdir(p)` (check-then-act, two steps, strict)       *)
(*   creat p x      open for writing (x=1 truncate, 0 keep/append, 2 exclusive)            *)
(*   write p / closew p / put p (= creat;write;close as one step, coarse models)           *)
(*   openr p, stat p x, listdir p    observations (recorded in obs); a stand-alone existence *)
(*                  test that answers differently from the recorded answer x stops the     *)
(*                  worker with "DIVERGED": its recorded operation list says nothing about  *)
(*                  what it would do next, so no failure is ever derived from such a path  *)
(*   rename p q, link p q, unlink p, rmdir p, exit x (x=1: status 0)                       *)
EXTENDS Integers, Sequences, FiniteSets, TLC

Parent(p)     == SubSeq(p, 1, Len(p) - 1)
Exists(fs, p) == p = <<>> \/ p \in DOMAIN fs
IsDir(fs, p)  == p = <<>> \/ (p \in DOMAIN fs /\ fs[p].d)
IsFile(fs, p) == p \in DOMAIN fs /\ ~fs[p].d
Put(fs, p, v) == [r \in DOMAIN fs \cup {p} |-> IF r = p THEN v ELSE fs[r]]
Del(fs, p)    == [r \in DOMAIN fs \ {p} |-> fs[r]]
DirEnt        == [d |-> TRUE, c |-> <<>>]
FileEnt(c)    == [d |-> FALSE, c |-> c]
Children(fs, p) == {r \in DOMAIN fs : Len(r) = Len(p) + 1 /\ Parent(r) = p}
EmptyFs       == <<>>

L0 == [pc |-> 1, stk |-> <<>>, obs |-> <<>>, fail |-> ""]

Res(fs, l)       == [fs |-> fs, l |-> l]
Adv(fs, l)       == Res(fs, [l EXCEPT !.pc = @ + 1, !.stk = <<>>])
Fail(fs, l, why) == Res(fs, [l EXCEPT !.fail = why, !.stk = <<>>])
Seen(l, k, p, e, c, n) == [l EXCEPT !.obs = Append(@, [k |-> k, p |-> p, e |-> e, c |-> c, n |-> n])]
Frame(p, ph)     == [p |-> p, ph |-> ph]

(* one atomic step of a running makedirs call; l.stk is non-empty; tol = exist_ok *)
MkStep(fs, l, tol) ==
  LET n     == Len(l.stk)
      top   == l.stk[n]
      rest  == SubSeq(l.stk, 1, n - 1)
      inner == n > 1
      Ret   == IF rest = <<>> THEN Adv(fs, l) ELSE Res(fs, [l EXCEPT !.stk = rest])
      Raise == IF inner THEN Ret            \* FileExistsError of the recursive call is swallowed
               ELSE Fail(fs, l, "EEXIST")
  IN CASE top.ph = "chk" ->
            IF Len(top.p) > 1 /\ ~Exists(fs, Parent(top.p))
            THEN Res(fs, [l EXCEPT !.stk = rest \o <<Frame(top.p, "mk"), Frame(Parent(top.p), "chk")>>])
            ELSE Res(fs, [l EXCEPT !.stk = rest \o <<Frame(top.p, "mk")>>])
       [] top.ph = "mk" ->
            IF ~IsDir(fs, Parent(top.p)) THEN Fail(fs, l, "ENOENT")
            ELSE IF ~Exists(fs, top.p)
                 THEN LET fs2 == Put(fs, top.p, DirEnt) IN
                      IF rest = <<>> THEN Adv(fs2, l) ELSE Res(fs2, [l EXCEPT !.stk = rest])
            ELSE IF tol THEN Res(fs, [l EXCEPT !.stk = rest \o <<Frame(top.p, "isdir")>>])
            ELSE Raise
       [] top.ph = "isdir" -> IF IsDir(fs, top.p) THEN Ret ELSE Raise
       [] top.ph = "gmk" ->                 \* the act of check-then-act: a strict mkdir
            IF ~IsDir(fs, Parent(top.p)) THEN Fail(fs, l, "ENOENT")
            ELSE IF Exists(fs, top.p) THEN Fail(fs, l, "EEXIST")
            ELSE Adv(Put(fs, top.p, DirEnt), l)

CreatOk(fs, p) == IsDir(fs, Parent(p)) /\ ~IsDir(fs, p)

(* one atomic step of worker w whose next operation is op *)
StepOp(fs, l, w, op) ==
  IF l.stk # <<>> THEN MkStep(fs, l, op.x = 1)
  ELSE CASE op.k = "makedirs" -> MkStep(fs, [l EXCEPT !.stk = <<Frame(op.p, "chk")>>], op.x = 1)
    [] op.k = "mkdir" ->
         IF ~IsDir(fs, Parent(op.p)) THEN Fail(fs, l, "ENOENT")
         ELSE IF ~Exists(fs, op.p) THEN Adv(Put(fs, op.p, DirEnt), l)
         ELSE IF op.x = 1 THEN Adv(fs, l) ELSE Fail(fs, l, "EEXIST")
    [] op.k = "guardmk" ->
         IF Exists(fs, op.p) THEN Adv(fs, l) ELSE Res(fs, [l EXCEPT !.stk = <<Frame(op.p, "gmk")>>])
    [] op.k = "creat" ->
         IF ~IsDir(fs, Parent(op.p)) THEN Fail(fs, l, "ENOENT")
         ELSE IF IsDir(fs, op.p) THEN Fail(fs, l, "EISDIR")
         ELSE IF op.x = 2 /\ Exists(fs, op.p) THEN Fail(fs, l, "EEXIST")
         ELSE Adv(Put(fs, op.p, FileEnt(IF op.x = 0 /\ Exists(fs, op.p) THEN fs[op.p].c ELSE <<>>)), l)
    [] op.k = "write" ->
         IF IsFile(fs, op.p) THEN Adv(Put(fs, op.p, FileEnt(Append(fs[op.p].c, <<w, l.pc>>))), l)
         ELSE Adv(fs, l)                    \* the name was removed meanwhile: the bytes go to an orphan
    [] op.k = "closew" -> Adv(fs, l)
    [] op.k = "put" ->
         IF ~IsDir(fs, Parent(op.p)) THEN Fail(fs, l, "ENOENT")
         ELSE IF IsDir(fs, op.p) THEN Fail(fs, l, "EISDIR")
         ELSE Adv(Put(fs, op.p, FileEnt(<<<<w, l.pc>>>>)), l)
    [] op.k = "openr" ->
         IF ~Exists(fs, op.p) THEN Fail(fs, l, "ENOENT")
         ELSE IF IsDir(fs, op.p) THEN Fail(fs, l, "EISDIR")
         ELSE Adv(fs, Seen(l, "read", op.p, TRUE, fs[op.p].c, {}))
    [] op.k = "stat" ->                     \* x = what the worker saw when its operations were recorded
         IF Exists(fs, op.p) # (op.x = 1)
         THEN Fail(fs, Seen(l, "stat", op.p, Exists(fs, op.p), <<>>, {}), "DIVERGED")
         ELSE Adv(fs, Seen(l, "stat", op.p, Exists(fs, op.p), <<>>, {}))
    [] op.k = "listdir" ->
         IF ~IsDir(fs, op.p) THEN Fail(fs, l, "ENOTDIR")
         ELSE Adv(fs, Seen(l, "ls", op.p, TRUE, <<>>, Children(fs, op.p)))
    [] op.k = "rename" ->
         IF ~Exists(fs, op.p) \/ ~IsDir(fs, Parent(op.q)) THEN Fail(fs, l, "ENOENT")
         ELSE Adv(Put(Del(fs, op.p), op.q, fs[op.p]), l)
    [] op.k = "link" ->
         IF ~Exists(fs, op.p) \/ ~IsDir(fs, Parent(op.q)) THEN Fail(fs, l, "ENOENT")
         ELSE IF Exists(fs, op.q) THEN Fail(fs, l, "EEXIST")
         ELSE Adv(Put(fs, op.q, fs[op.p]), l)
    [] op.k = "unlink" ->
         IF ~IsFile(fs, op.p) THEN Fail(fs, l, "ENOENT") ELSE Adv(Del(fs, op.p), l)
    [] op.k = "rmdir" ->
         IF ~(op.p \in DOMAIN fs /\ fs[op.p].d) THEN Fail(fs, l, "ENOENT")
         ELSE IF Children(fs, op.p) # {} THEN Fail(fs, l, "ENOTEMPTY")
         ELSE Adv(Del(fs, op.p), l)
    [] op.k = "exit" -> IF op.x = 1 THEN Adv(fs, l) ELSE Fail(fs, l, "EXIT")
    [] OTHER -> Fail(fs, l, "UNKNOWN-OP")

Done(l, ops)    == l.pc > Len(ops)
Running(l, ops) == l.fail = "" /\ ~Done(l, ops)

(* run one worker to completion on fs (the sequential semantics) *)
RECURSIVE RunW(_, _, _, _)
RunW(fs, l, w, ops) ==
  IF ~Running(l, ops) THEN Res(fs, l)
  ELSE LET r == StepOp(fs, l, w, ops[l.pc]) IN RunW(r.fs, r.l, w, ops)

(* run the workers ws (a sequence of worker ids) one after the other; prog[w] = operation list *)
RECURSIVE RunSeq(_, _, _, _)
RunSeq(fs, ws, prog, acc) ==
  IF ws = <<>> THEN [fs |-> fs, ls |-> acc]
  ELSE LET w == Head(ws)
           r == RunW(fs, L0, w, prog[w]) IN
       RunSeq(r.fs, Tail(ws), prog, acc @@ (w :> r.l))

IsPrefix(s, t) == Len(s) <= Len(t) /\ \A i \in 1..Len(s) : s[i] = t[i]
SeqRange(s)    == {s[i] : i \in 1..Len(s)}

(* --- static write/read sets of an operation list (used to state the lemma's hypotheses) --- *)
WritesOf(ops) == {ops[i].p : i \in {j \in 1..Len(ops) : ops[j].k \in {"creat", "write", "put", "unlink", "rename", "link"}}}
                 \cup {ops[i].q : i \in {j \in 1..Len(ops) : ops[j].k \in {"rename", "link"}}}
ReadsOf(ops)  == {ops[i].p : i \in {j \in 1..Len(ops) : ops[j].k \in {"openr", "stat", "listdir"}}}
RemovesOf(ops) == {ops[i].p : i \in {j \in 1..Len(ops) : ops[j].k \in {"rmdir", "unlink", "rename"}}}
DirsMadeBy(ops) == {ops[i].p : i \in {j \in 1..Len(ops) : ops[j].k \in {"makedirs", "mkdir", "guardmk"}}}
RECURSIVE Ancestors(_)
Ancestors(p) == IF p = <<>> THEN {} ELSE {Parent(p)} \cup Ancestors(Parent(p))

(* --- independence of a step (partial-order reduction used by TestCaseGen) -------------- *)
(* paths an operation list mentions, with all their ancestors (makedirs and the parent      *)
(* checks of mkdir/open touch the ancestors)                                               *)
Mentions(ops)   == ({ops[i].p : i \in 1..Len(ops)} \cup {ops[i].q : i \in 1..Len(ops)}) \ {<<>>}
MentionsUp(ops) == (Mentions(ops) \cup UNION {Ancestors(p) : p \in Mentions(ops)}) \ {<<>>}
SharedPaths(prog, ws) ==
  {p \in UNION {MentionsUp(prog[w]) : w \in ws} : Cardinality({w \in ws : p \in MentionsUp(prog[w])}) >= 2}
NoRemovals(prog, ws) == \A w \in ws : RemovesOf(prog[w]) = {}

(* paths whose state the next step of a worker reads / writes *)
StepReads(l, op) ==
  IF l.stk # <<>> THEN LET top == l.stk[Len(l.stk)] IN
                       IF top.ph = "isdir" THEN {top.p} ELSE {Parent(top.p)}
  ELSE CASE op.k \in {"makedirs", "mkdir", "creat", "put"} -> {Parent(op.p)}
         [] op.k \in {"guardmk", "openr", "stat", "listdir"} -> {op.p}
         [] op.k \in {"rename", "link"} -> {Parent(op.q)}
         [] OTHER -> {}
StepWrites(l, op) ==
  IF l.stk # <<>> THEN LET top == l.stk[Len(l.stk)] IN
                       IF top.ph \in {"mk", "gmk"} THEN {top.p} ELSE {}
  ELSE CASE op.k \in {"mkdir", "creat", "put", "write", "unlink", "rmdir"} -> {op.p}
         [] op.k \in {"rename", "link"} -> {op.p, op.q}
         [] OTHER -> {}
(* A step is independent of every step of the other workers of the group when it writes     *)
(* only paths nobody else touches and reads only such paths or directories that already     *)
(* exist and can never disappear (no worker of the group removes anything).                 *)
IndepStep(fs, l, op, shared, norem) ==
  /\ StepWrites(l, op) \cap shared = {}
  /\ \A p \in StepReads(l, op) :
        p = <<>> \/ p \notin shared \/ (norem /\ IsDir(fs, p) /\ ~(l.stk = <<>> /\ op.k = "listdir"))
=============================================================================
