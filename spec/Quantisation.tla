----------------------------- MODULE Quantisation -----------------------------
(* The quantiser of VC-2 as the codec uses it (property C12): the encoder picks a slice     *)
(* quantisation index, the quantisation matrix lowers it per subband (clipped at 0), a      *)
(* coefficient is quantised (forward_quant), transmitted, and dequantised (inverse_quant).  *)
(* TLC explores every (qindex, matrix entry, coefficient) of the box and checks the C12      *)
(* predicates on the design's formulas; mc/QuantisationG.cfg collapses the states           *)
(* into boundary classes (VIEW) and dumps one representative per class for replay on the    *)
(* real functions.                                                                          *)
EXTENDS QuantisationOps, TLC

CONSTANTS MaxQI,    \* slice qindex 0..MaxQI  (<= MaxPlainQI)
          MaxM,     \* quantisation matrix entries 0..MaxM
          MaxX      \* coefficients -MaxX..MaxX

ASSUME MaxQI <= MaxPlainQI

VARIABLES stage,   \* "start" | "index" | "coeff" | "quantised" | "dequantised"
          qindex,  \* slice quantisation index
          m,       \* quantisation matrix entry of the subband
          x,       \* coefficient
          q,       \* quantised value (what the bitstream carries)
          r        \* reconstructed coefficient

vars == <<stage, qindex, m, x, q, r>>

QI == EffectiveIndex(qindex, m)

Init == stage = "start" /\ qindex = 0 /\ m = 0 /\ x = 0 /\ q = 0 /\ r = 0

SliceQuantIndex(i, mm) == /\ stage = "start" /\ qindex' = i /\ m' = mm /\ stage' = "index"
                          /\ UNCHANGED <<x, q, r>>
Coefficient(v)   == /\ stage = "index" /\ x' = v /\ stage' = "coeff" /\ UNCHANGED <<qindex, m, q, r>>
ForwardQuant     == /\ stage = "coeff" /\ q' = Fq(x, QI) /\ stage' = "quantised"
                    /\ UNCHANGED <<qindex, m, x, r>>
InverseQuant     == /\ stage = "quantised" /\ r' = Iq(q, QI) /\ stage' = "dequantised"
                    /\ UNCHANGED <<qindex, m, x, q>>

Next == \/ \E i \in 0..MaxQI, mm \in 0..MaxM : SliceQuantIndex(i, mm)
        \/ \E v \in (-MaxX)..MaxX : Coefficient(v)
        \/ ForwardQuant
        \/ InverseQuant

Spec == Init /\ [][Next]_vars

Done == stage = "dequantised"

(* ------------------------------ C12, clause by clause ---------------------------------- *)
SignPreserved   == Done => SignKept(x, r)
WithinOneStep   == Done => WithinStep(x, r, QF(QI))
IndexZeroExact  == Done => LosslessAt0(QI, x, r)
(* state-independent facts of the design, over every index the plain formulas reach *)
FactorSeq == [k \in 1..(MaxPlainQI + 1) |-> QF(k - 1)]
Iq1Seq    == [k \in 1..(MaxPlainQI + 1) |-> Iq(1, k - 1)]
FactorsIncrease == IncreasingFrom(FactorSeq, 0, 0)
DistinctFrom7   == IncreasingFrom(Iq1Seq, 0, 7)
(* extras the design also guarantees (not part of C12; the trace spec logs them): the       *)
(* quantised magnitude never exceeds the coefficient's, reconstruction is idempotent         *)
NoGrowth    == Done => Abs(q) <= Abs(x) /\ Abs(r) <= Abs(x) + QF(QI) \div 4
Idempotent  == Done => Fq(r, QI) = q
Symmetric   == Done => Fq(-x, QI) = -q /\ Iq(-q, QI) = -r

(* ------------------------------ classes for the G direction ---------------------------- *)
(* position of 4|x| inside its quantisation bin: first, second, last point or interior      *)
Bin == LET f == QF(QI)
           p == (4 * Abs(x)) % f IN
       IF p < 4 THEN 0 ELSE IF p >= f - 4 THEN 2 ELSE 1
ClassView ==
  IF stage \in {"start", "index"} THEN <<stage, qindex, m, 0, 0, 0>>
  ELSE <<stage, qindex, m, Sgn(x), Bin, IF Abs(Fq(x, QI)) > 2 THEN 3 ELSE Abs(Fq(x, QI))>>
=============================================================================
