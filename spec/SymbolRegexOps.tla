--------------------------- MODULE SymbolRegexOps ---------------------------
(* Pure operators for the pattern language of vc2_conformance/symbol_re.py (C18, C19).     *)
(*                                                                                         *)
(* Part 1: the *language*: abstract syntax, Brzozowski derivatives, viability, completion. *)
(* Part 2: the *concrete syntax*: printing an AST as a token list (minimal and full        *)
(*         parenthesisation) -- the inverse of tokenize_regex/parse_expression.            *)
(* Part 3: the *code's machine*: Thompson construction as NFA.from_ast builds it and the   *)
(*         Matcher algorithm running on it, parametrised by the direction of the empty     *)
(*         transitions.  directed = TRUE is Thompson's construction; directed = FALSE is   *)
(*         DeviationBidirEpsilon, what add_transition(dest) (symmetric) actually builds.   *)
EXTENDS Integers, Sequences, FiniteSets

(* ------------------------------------------------------------------ 1. language ------- *)
(* AST: nested tuples, the first element is the tag and fixes the shape.                   *)
(*   <<"sym", a>>  <<"any">>  <<"end">>  <<"eps">>  <<"nul">> (empty language, internal)   *)
(*   <<"cat", r, s>>  <<"alt", r, s>>  <<"star", r>>  <<"opt", r>>  <<"plus", r>>          *)
(* Symbols are strings; "$" is the end-of-sequence marker as a symbol ("." never matches   *)
(* it), "." is the wildcard label.                                                         *)
Eps == <<"eps">>
Nul == <<"nul">>
Any == <<"any">>
End == <<"end">>
Sym(a) == <<"sym", a>>
EndSym == "$"
WildSym == "."

Unary  == {"star", "opt", "plus"}
Binary == {"cat", "alt"}

MkCat(r, s) == IF r = Nul \/ s = Nul THEN Nul
               ELSE IF r = Eps THEN s
               ELSE IF s = Eps THEN r
               ELSE <<"cat", r, s>>
MkAlt(r, s) == IF r = Nul THEN s
               ELSE IF s = Nul THEN r
               ELSE IF r = s THEN r
               ELSE <<"alt", r, s>>

(* matches the empty sequence without using the end marker *)
RECURSIVE Nullable(_)
Nullable(r) ==
  LET t == r[1] IN
  CASE t \in {"eps", "star", "opt"} -> TRUE
    [] t \in {"nul", "sym", "any", "end"} -> FALSE
    [] t = "cat" -> Nullable(r[2]) /\ Nullable(r[3])
    [] t = "alt" -> Nullable(r[2]) \/ Nullable(r[3])
    [] t = "plus" -> Nullable(r[2])

(* language not empty *)
RECURSIVE NonEmpty(_)
NonEmpty(r) ==
  LET t == r[1] IN
  CASE t \in {"eps", "star", "opt", "sym", "any", "end"} -> TRUE
    [] t = "nul" -> FALSE
    [] t = "cat" -> NonEmpty(r[2]) /\ NonEmpty(r[3])
    [] t = "alt" -> NonEmpty(r[2]) \/ NonEmpty(r[3])
    [] t = "plus" -> NonEmpty(r[2])

(* Brzozowski derivative by symbol x (x may be EndSym) *)
RECURSIVE Deriv(_, _)
Deriv(r, x) ==
  LET t == r[1] IN
  CASE t \in {"eps", "nul"} -> Nul
    [] t = "sym" -> IF r[2] = x THEN Eps ELSE Nul
    [] t = "any" -> IF x # EndSym THEN Eps ELSE Nul
    [] t = "end" -> IF x = EndSym THEN Eps ELSE Nul
    [] t = "cat" -> MkAlt(MkCat(Deriv(r[2], x), r[3]),
                          IF Nullable(r[2]) THEN Deriv(r[3], x) ELSE Nul)
    [] t = "alt" -> MkAlt(Deriv(r[2], x), Deriv(r[3], x))
    [] t = "star" -> MkCat(Deriv(r[2], x), r)
    [] t = "opt" -> Deriv(r[2], x)
    [] t = "plus" -> MkCat(Deriv(r[2], x), <<"star", r[2]>>)

RECURSIVE DerivSeq(_, _)
DerivSeq(r, w) == IF w = <<>> THEN r ELSE DerivSeq(Deriv(r, Head(w)), Tail(w))

(* the sequence consumed so far (residual d) is a whole match: it is in the language, or   *)
(* it is once the end marker is appended                                                    *)
CompleteD(d) == Nullable(d) \/ Nullable(Deriv(d, EndSym))
(* the sequence consumed so far is a prefix of some match *)
ViableD(d) == NonEmpty(d)
NextSymsD(d, Alphabet) == {x \in Alphabet : NonEmpty(Deriv(d, x))}

Complete(r, w) == CompleteD(DerivSeq(r, w))
Viable(r, w)   == ViableD(DerivSeq(r, w))

(* "$ used only where nothing mandatory follows it": k = what follows r is nullable *)
RECURSIVE EndOK(_, _)
EndOK(r, k) ==
  LET t == r[1] IN
  CASE t \in {"eps", "nul", "sym", "any"} -> TRUE
    [] t = "end" -> k
    [] t = "cat" -> EndOK(r[2], k /\ Nullable(r[3])) /\ EndOK(r[3], k)
    [] t = "alt" -> EndOK(r[2], k) /\ EndOK(r[3], k)
    [] t \in Unary -> EndOK(r[2], k)      \* after one round of r* comes r* again: nullable

RECURSIVE Ops(_)
Ops(r) == LET t == r[1] IN
          IF t \in Unary THEN 1 + Ops(r[2])
          ELSE IF t \in Binary THEN 1 + Ops(r[2]) + Ops(r[3])
          ELSE 0

RECURSIVE SymsOf(_)
SymsOf(r) == LET t == r[1] IN
             IF t = "sym" THEN {r[2]}
             ELSE IF t \in Unary THEN SymsOf(r[2])
             ELSE IF t \in Binary THEN SymsOf(r[2]) \cup SymsOf(r[3])
             ELSE {}

(* all ASTs with exactly n operators over the given leaves *)
RECURSIVE PatsExact(_, _)
PatsExact(n, Leaves) ==
  IF n = 0 THEN Leaves
  ELSE {<<u, r>> : u \in Unary, r \in PatsExact(n - 1, Leaves)}
       \cup UNION {{<<b, r, s>> : b \in Binary, r \in PatsExact(k, Leaves), s \in PatsExact(n - 1 - k, Leaves)}
                   : k \in 0..(n - 1)}
PatsUpTo(n, Leaves) == {p \in UNION {PatsExact(k, Leaves) : k \in 0..n} : EndOK(p, TRUE)}

(* ------------------------------------------------------------ 2. concrete syntax ------ *)
Paren(t) == <<"(">> \o t \o <<")">>
ModOf(t) == CASE t = "star" -> "*" [] t = "opt" -> "?" [] t = "plus" -> "+"

(* lvl: 0 = inside |, 1 = inside a concatenation, 2 = operand of a suffix.                 *)
(* style: "min" minimal parentheses, "full" every composite parenthesised.                 *)
RECURSIVE Toks(_, _, _)
Toks(r, lvl, style) ==
  LET t == r[1] IN
  CASE t = "sym" -> <<r[2]>>
    [] t = "any" -> <<WildSym>>
    [] t = "end" -> <<EndSym>>
    [] t = "eps" -> <<"(", ")">>
    [] t = "cat" -> LET x == Toks(r[2], 1, style) \o Toks(r[3], 1, style) IN
                    IF style = "full" \/ lvl >= 2 THEN Paren(x) ELSE x
    [] t = "alt" -> LET x == Toks(r[2], 0, style) \o <<"|">> \o Toks(r[3], 0, style) IN
                    IF style = "full" \/ lvl >= 1 THEN Paren(x) ELSE x
    [] t \in Unary -> LET x == Toks(r[2], 2, style) \o <<ModOf(t)>> IN
                      IF style = "full" \/ lvl >= 2 THEN Paren(x) ELSE x

(* --------------------------------------------------------- 3. the code's machine ------ *)
Label(r) == CASE r[1] = "sym" -> r[2] [] r[1] = "any" -> WildSym [] r[1] = "end" -> EndSym

(* NFA.from_ast: nodes are numbered from n; result [s start, f final, nx next free,        *)
(* eps set of <<from, to>> as the calls add_transition(dest) are made, tr labelled edges]  *)
RECURSIVE Build(_, _)
Build(r, n) ==
  LET t == r[1] IN
  CASE t = "eps" -> [s |-> n, f |-> n, nx |-> n + 1, eps |-> {}, tr |-> {}]
    [] t \in {"sym", "any", "end"} ->
         [s |-> n, f |-> n + 1, nx |-> n + 2, eps |-> {}, tr |-> {<<n, Label(r), n + 1>>}]
    [] t = "cat" ->
         LET A == Build(r[2], n)
             B == Build(r[3], A.nx) IN
         [s |-> A.s, f |-> B.f, nx |-> B.nx,
          eps |-> A.eps \cup B.eps \cup {<<A.f, B.s>>}, tr |-> A.tr \cup B.tr]
    [] t = "alt" ->
         LET A == Build(r[2], n + 2)
             B == Build(r[3], A.nx) IN
         [s |-> n, f |-> n + 1, nx |-> B.nx,
          eps |-> A.eps \cup B.eps \cup {<<n, A.s>>, <<n, B.s>>, <<A.f, n + 1>>, <<B.f, n + 1>>},
          tr |-> A.tr \cup B.tr]
    [] t = "opt" -> Build(<<"alt", r[2], Eps>>, n)            \* parse_expression: Union(x, None)
    [] t = "star" ->
         LET A == Build(r[2], n + 2) IN
         [s |-> n, f |-> n + 1, nx |-> A.nx,
          eps |-> A.eps \cup {<<n, n + 1>>, <<n, A.s>>, <<A.f, A.s>>, <<A.f, n + 1>>},
          tr |-> A.tr]
    [] t = "plus" -> Build(<<"cat", r[2], <<"star", r[2]>>>>, n)   \* Concatenation(x, Star(x))

EpsEdges(N, directed) == IF directed THEN N.eps ELSE N.eps \cup {<<e[2], e[1]>> : e \in N.eps}

RECURSIVE Reach(_, _)
Reach(E, S) == LET T == S \cup {e[2] : e \in {e \in E : e[1] \in S}} IN
               IF T = S THEN S ELSE Reach(E, T)

(* NFANode.equivalent_nodes: everything connected to node n by empty transitions only.     *)
(* Table(N) tabulates it per node for both readings of the empty transitions, so that a    *)
(* model can compute it once per pattern:  clD directed (Thompson), clU symmetric          *)
(* (DeviationBidirEpsilon: add_transition(dest) also adds dest -> self).                   *)
Table(N) == [s |-> N.s, f |-> N.f, tr |-> N.tr,
             clD |-> [n \in 0..(N.nx - 1) |-> Reach(N.eps, {n})],
             clU |-> [n \in 0..(N.nx - 1) |-> Reach(EpsEdges(N, FALSE), {n})]]
EquivT(cl, S) == UNION {cl[n] : n \in S}

(* follow(x) from any node of closure C *)
FollowC(T, C, x) == {t[3] : t \in {t \in T.tr : t[1] \in C /\ t[2] = x}}

(* Matcher.match_symbol / is_complete / valid_next_symbols on the closure C of cur_states *)
MStepC(T, C, x)   == FollowC(T, C, x) \cup FollowC(T, C, WildSym)
MAcceptC(T, C, x) == MStepC(T, C, x) # {}
MCompleteC(T, C)  == T.f \in C \/ FollowC(T, C, EndSym) # {}
MVnsC(T, C)       == {t[2] : t \in {t \in T.tr : t[1] \in C}}
                     \cup (IF MCompleteC(T, C) THEN {EndSym} ELSE {})
(* cur_states after match_symbol(x): unchanged when nothing matched *)
MNextC(T, cl, S, x) == LET N2 == MStepC(T, EquivT(cl, S), x) IN IF N2 = {} THEN S ELSE N2

(* what a caller may conclude from valid_next_symbols: x is offered *)
Offered(vns, x) == x \in vns \/ WildSym \in vns
=============================================================================
