---------------------------- MODULE FixedDictOps ----------------------------
(* Pure operators shared by FixedDict.tla (exhaustive model) and FixedDictTrace.tla        *)
(* (validation of traces recorded from vc2_conformance.fixeddict).                          *)
EXTENDS Integers, Sequences, FiniteSets

Range(s) == {s[i] : i \in 1..Len(s)}

(* assignment of value v to every key of `ks` on top of mapping m *)
Assign(m, ks, v) == [k \in (DOMAIN m) \cup ks |-> IF k \in ks THEN v ELSE m[k]]

(* index of the first undeclared key of an argument list, 0 if none *)
FirstBad(s, Decl) == IF \E i \in 1..Len(s) : s[i] \notin Decl
                     THEN CHOOSE i \in 1..Len(s) : s[i] \notin Decl /\ \A j \in 1..(i-1) : s[j] \in Decl
                     ELSE 0

Prefix(s, n) == {s[i] : i \in 1..n}

KeyOps  == {"setitem", "setdefault"}
\* the argument of update / |= / the constructor may be a plain dict, a list of pairs, keyword arguments or a
\* fixed-entry dictionary of ANOTHER type (which may hold keys this type does not declare): same rule for all
\* "..._mixed": a positional mapping (the first half of the keys) AND keyword arguments (the rest) in one call
ListOps == {"update_dict", "update_pairs", "update_kwargs", "ior", "update_fd", "ior_fd", "update_mixed"}
SelfOps == {"copy", "pickle"}

(* does operation o name a key outside Decl? *)
NamesUndeclared(o, Decl) ==
  CASE o.op \in KeyOps -> o.k \notin Decl
    [] o.op \in SelfOps -> FALSE
    [] OTHER -> \E i \in 1..Len(o.ks) : o.ks[i] \notin Decl

(* --- the design: what each operation must do to mapping m ----------------------------- *)
PostP(m, Decl, o) ==
  CASE o.op \in {"construct", "construct_fd", "construct_mixed"} ->
         \* construction from a mapping: rejected as a whole if any key is undeclared
         IF Range(o.ks) \subseteq Decl
         THEN [d |-> Assign(<<>>, Range(o.ks), o.v), res |-> "ok"]
         ELSE [d |-> m, res |-> "keyerror"]          \* no new object: keep the old one
    [] o.op = "setitem" ->
         IF o.k \in Decl THEN [d |-> Assign(m, {o.k}, o.v), res |-> "ok"]
         ELSE [d |-> m, res |-> "keyerror"]
    [] o.op = "setdefault" ->
         IF o.k \in Decl
         THEN [d |-> IF o.k \in DOMAIN m THEN m ELSE Assign(m, {o.k}, o.v), res |-> "ok"]
         ELSE [d |-> m, res |-> "keyerror"]
    [] o.op \in ListOps ->
         \* update walks its argument in order and assigns item by item (as the code does)
         LET b == FirstBad(o.ks, Decl) IN
         IF b = 0 THEN [d |-> Assign(m, Range(o.ks), o.v), res |-> "ok"]
         ELSE [d |-> Assign(m, Prefix(o.ks, b - 1), o.v), res |-> "keyerror"]
    [] o.op \in SelfOps -> [d |-> m, res |-> "ok"]
=============================================================================
