----------------------------- MODULE BitIOTrace -----------------------------
(* Validation of traces recorded from the real BitstreamWriter / BitstreamReader / decoder.io *)
(* (property C20) far outside the exhaustive box of BitIO.tla: random long programs, values   *)
(* up to 2^90, block lengths up to 200, files of up to 48 bytes.                               *)
(* TLC integers are 32-bit, so every value travels as [neg, mb] with mb = the magnitude in     *)
(* binary, MSB first, no leading zero (<<>> for 0), and every rule is evaluated on bit lists.  *)
(* One log line per primitive; verdicts are total: each line is judged, the first failing      *)
(* clause is named, alarm = the clause is part of the statement of C20 (rule R1), and the      *)
(* model state is resynchronised on the recorded state after every line.                       *)
EXTENDS BitIOOps, Json, IOUtils, TLC, TLCExt

Log == ndJsonDeserialize(IOEnv.TRACE_FILE)

VARIABLES l, file, bad
tvars == <<l, file, bad>>

(* ---- arithmetic on bit lists ---------------------------------------------------------------- *)
WellFormed(mb) == mb = <<>> \/ mb[1] = 1
RECURSIVE Inc(_)
Inc(s) == IF s = <<>> THEN <<1>>
          ELSE IF s[Len(s)] = 0 THEN [s EXCEPT ![Len(s)] = 1]
          ELSE Append(Inc(SubSeq(s, 1, Len(s) - 1)), 0)
Strip(s) == IF \E i \in 1..Len(s) : s[i] = 1
            THEN SubSeq(s, CHOOSE i \in 1..Len(s) : s[i] = 1 /\ \A j \in 1..(i - 1) : s[j] = 0, Len(s))
            ELSE <<>>
UintCodeB(mb) == LET b == Inc(mb)
                     k == Len(b) - 1 IN
                 [i \in 1..(2 * k + 1) |-> IF i = 2 * k + 1 THEN 1 ELSE IF i % 2 = 1 THEN 0 ELSE b[1 + i \div 2]]
UintLenB(mb) == 2 * (Len(Inc(mb)) - 1) + 1

OutOfRangeB(o) ==
  CASE o.op = "nbits"    -> o.neg \/ Len(o.mb) > o.n
    [] o.op = "uintlit"  -> o.neg \/ Len(o.mb) > 8 * o.n
    [] o.op = "uint"     -> o.neg
    [] o.op = "bitarray" -> Len(o.s) > o.n
    [] o.op = "bytes"    -> Len(o.s) > o.n
    [] OTHER -> FALSE

EmitB(o) ==
  CASE o.op = "bit"      -> IF o.mb = <<>> THEN <<0>> ELSE <<1>>
    [] o.op = "nbits"    -> Zeros(o.n - Len(o.mb)) \o o.mb
    [] o.op = "uintlit"  -> Zeros(8 * o.n - Len(o.mb)) \o o.mb
    [] o.op = "uint"     -> UintCodeB(o.mb)
    [] o.op = "sint"     -> UintCodeB(o.mb) \o (IF o.mb = <<>> THEN <<>> ELSE IF o.neg THEN <<1>> ELSE <<0>>)
    [] o.op = "bitarray" -> o.s \o Zeros(o.n - Len(o.s))
    [] o.op = "bytes"    -> BytesToBits(o.s) \o Zeros(8 * (o.n - Len(o.s)))

(* the writer model only needs (pos, on, rem): what was placed is compared per line against EmitB *)
WModel(e) == [buf |-> <<>>, pos |-> e.p0, on |-> e.on0, rem |-> e.rem0]

(* what a mirrored read of a successfully written primitive must return, as recorded by the driver: *)
(* integers come back as [neg, mb], bit strings as sequences                                         *)
SameValue(o, rv) ==
  IF o.op \in {"bitarray", "bytes"} THEN rv.s = EmitB(o)
  ELSE rv.mb = o.mb /\ rv.neg = (o.neg /\ o.mb # <<>>)

ReadBackOK(e, rd) ==
  \/ rd.na
  \/ /\ rd.exc = "none" /\ SameValue(e.o, rd.v)
     /\ rd.p1 = e.p1
     /\ e.on1 => rd.rem1 = (IF rd.clamp THEN Max(0, e.rem1) ELSE e.rem1)

WClause(e) ==
  LET o == e.o
      oor == OutOfRangeB(o)
      p == IF o.op \in ValueOps /\ ~oor THEN WBits(WModel(e), EmitB(o)) ELSE Refuse(WModel(e), "n/a") IN
  IF o.op \in ValueOps /\ ~WellFormed(o.mb)             THEN [c |-> "MalformedEvent", alarm |-> FALSE]
  ELSE IF o.op \in ValueOps /\ oor /\ e.exc # "OutOfRangeError" THEN [c |-> "OutOfRangeNotRefused", alarm |-> TRUE]
  ELSE IF o.op \in ValueOps /\ oor /\ (e.p1 # e.p0 \/ e.rem1 # e.rem0 \/ e.bits # <<>>)
                                                         THEN [c |-> "OutOfRangeWroteSomething", alarm |-> TRUE]
  ELSE IF o.op \in ValueOps /\ ~oor /\ e.exc = "OutOfRangeError" THEN [c |-> "InRangeRefused", alarm |-> TRUE]
  ELSE IF o.op \in ValueOps /\ ~oor /\ e.on0 /\ (p.err = "ValueError") # (e.exc = "ValueError")
                                                         THEN [c |-> "BlockRule", alarm |-> TRUE]
  ELSE IF o.op \in ValueOps /\ ~oor /\ ~e.on0 /\ e.exc # "none" THEN [c |-> "WriteFailed", alarm |-> TRUE]
  ELSE IF o.op \in {"uint", "sint"} /\ ~oor /\ ~e.on0 /\ e.exc = "none" /\ (e.lenexc # "none" \/ e.lenfn # e.p1 - e.p0)
                                                         THEN [c |-> "LengthFunction", alarm |-> TRUE]
  ELSE IF o.op = "uint" /\ oor /\ e.lenexc # "OutOfRangeError" THEN [c |-> "LengthFunctionRange", alarm |-> TRUE]
  ELSE IF o.op \in ValueOps /\ ~oor /\ e.exc = "none" /\ ~ReadBackOK(e, e.bs)  THEN [c |-> "ReadBackBitstreamReader", alarm |-> TRUE]
  ELSE IF o.op \in ValueOps /\ ~oor /\ e.exc = "none" /\ ~ReadBackOK(e, e.dec) THEN [c |-> "ReadBackDecoderIO", alarm |-> TRUE]
  (* spec-only predictions below: logged, never an alarm *)
  ELSE IF o.op \in ValueOps /\ ~oor /\ (p.w.pos # e.p1 \/ p.w.rem # e.rem1 \/ p.err # e.exc)
                                                         THEN [c |-> "SpecPosition", alarm |-> FALSE]
  ELSE IF o.op \in ValueOps /\ ~oor /\ e.bits # SubSeq(EmitB(o), 1, p.placed) THEN [c |-> "SpecBits", alarm |-> FALSE]
  ELSE IF o.op \in {"uint", "sint"} /\ ~oor /\ ~e.on0 /\ e.lenfn # Len(EmitB(o)) THEN [c |-> "SpecLength", alarm |-> FALSE]
  ELSE IF o.op = "bbegin" /\ (e.exc = "none") # ~e.on0   THEN [c |-> "SpecNesting", alarm |-> FALSE]
  ELSE IF o.op = "bbegin" /\ e.exc = "none" /\ ~(e.on1 /\ e.rem1 = o.n) THEN [c |-> "SpecBlockBegin", alarm |-> FALSE]
  ELSE IF o.op = "bend" /\ (e.exc = "none") # e.on0      THEN [c |-> "SpecNesting", alarm |-> FALSE]
  ELSE IF o.op = "bend" /\ e.exc = "none" /\ (e.on1 \/ e.ret # Max(0, e.rem0) \/ e.bs.ret # e.ret)
                                                         THEN [c |-> "SpecBlockEnd", alarm |-> FALSE]
  ELSE [c |-> "ok", alarm |-> FALSE]

(* ---- reader lines ----------------------------------------------------------------------------- *)
(* exp-Golomb on bit lists: returns the data bits of value+1 after its leading 1 *)
RECURSIVE RUintBAcc(_, _, _)
RUintBAcc(f, r, acc) ==
  LET a == RBit(f, r) IN
  IF a.err # "none" THEN [r |-> a.r, v |-> acc, err |-> a.err]
  ELSE IF a.v = 1 THEN [r |-> a.r, v |-> acc, err |-> "none"]
  ELSE LET b == RBit(f, a.r) IN
       IF b.err # "none" THEN [r |-> b.r, v |-> acc, err |-> b.err]
       ELSE RUintBAcc(f, b.r, Append(acc, b.v))
(* result as [r, err, mb1 (bits of |value|+1), neg] *)
RUintB(f, r) == LET a == RUintBAcc(f, r, <<1>>) IN [r |-> a.r, err |-> a.err, mb1 |-> a.v, neg |-> FALSE]
RSintB(f, r) ==
  LET a == RUintB(f, r) IN
  IF a.err # "none" \/ a.mb1 = <<1>> THEN a
  ELSE LET s == RBit(f, a.r) IN [r |-> s.r, err |-> s.err, mb1 |-> a.mb1, neg |-> s.v = 1]

RModel(e) == [pos |-> e.p0, on |-> e.on0, rem |-> e.rem0]

(* does the recorded outcome rd of reader line e match the model? (position, block, error, value) *)
RMatches(e, rd, clamp) ==
  LET o == e.o
      r == RModel(e) IN
  IF o.op \in {"uint", "sint"}
  THEN LET a == IF o.op = "uint" THEN RUintB(file, r) ELSE RSintB(file, r) IN
       /\ rd.exc = a.err /\ rd.p1 = a.r.pos
       /\ a.r.on => rd.rem1 = (IF clamp THEN Max(0, a.r.rem) ELSE a.r.rem)
       /\ a.err = "none" => (Inc(rd.v.mb) = a.mb1 /\ rd.v.neg = a.neg)
  ELSE IF o.op \in {"bit", "nbits", "uintlit", "bitarray", "bytes"}
  THEN LET n == CASE o.op = "bit" -> 1 [] o.op \in {"uintlit", "bytes"} -> 8 * o.n [] OTHER -> o.n
           a == RSeq(file, r, n) IN
       /\ rd.exc = a.err /\ rd.p1 = a.r.pos
       /\ a.r.on => rd.rem1 = (IF clamp THEN Max(0, a.r.rem) ELSE a.r.rem)
       /\ a.err = "none" => (IF o.op \in {"bitarray", "bytes"} THEN rd.v.s = a.v ELSE rd.v.mb = Strip(a.v))
  ELSE LET a == ROp(file, r, [op |-> o.op, n |-> o.n, v |-> o.b, s |-> <<>>]) IN
       /\ rd.exc = a.err /\ rd.p1 = a.r.pos /\ rd.on1 = a.r.on
       /\ a.r.on => rd.rem1 = (IF clamp THEN Max(0, a.r.rem) ELSE a.r.rem)
       /\ (a.err = "none" /\ o.op \in {"bend", "bendflush", "align"}) => rd.ret = a.v

ReadersAgree(e) ==
  \/ e.dec.na
  \/ /\ e.dec.exc = e.bs.exc /\ e.dec.p1 = e.bs.p1 /\ e.dec.on1 = e.bs.on1
     /\ e.bs.on1 => e.dec.rem1 = Max(0, e.bs.rem1)
     /\ e.bs.exc = "none" => (e.dec.v = e.bs.v /\ e.dec.ret = e.bs.ret)

PastEnd(e) == e.o.op = "bit" /\ e.on0 /\ e.rem0 <= 0
PastEndOK(e, rd) == rd.exc = "none" /\ rd.v.mb = <<1>> /\ rd.p1 = e.p0

RClause(e) ==
  IF PastEnd(e) /\ ~PastEndOK(e, e.bs)                     THEN [c |-> "ReadPastEndBitstreamReader", alarm |-> TRUE]
  ELSE IF PastEnd(e) /\ ~e.dec.na /\ ~PastEndOK(e, e.dec)  THEN [c |-> "ReadPastEndDecoderIO", alarm |-> TRUE]
  ELSE IF ~ReadersAgree(e)                                 THEN [c |-> "ReadersDisagree", alarm |-> TRUE]
  ELSE IF ~RMatches(e, e.bs, FALSE)                        THEN [c |-> "SpecReader", alarm |-> FALSE]
  ELSE [c |-> "ok", alarm |-> FALSE]

TraceInit == l = 1 /\ file = <<>> /\ bad = <<>>

TraceNext ==
  /\ l <= Len(Log)
  /\ l' = l + 1
  /\ LET e == Log[l] IN
     IF e.ev = "rbegin" THEN file' = e.file /\ UNCHANGED bad
     ELSE IF e.ev = "wbegin" THEN file' = <<>> /\ UNCHANGED bad
     ELSE /\ UNCHANGED file
          /\ LET c == IF e.ev = "w" THEN WClause(e) ELSE RClause(e) IN
             bad' = IF c.c = "ok" THEN bad
                    ELSE Append(bad, [tid |-> e.tid, line |-> l, clause |-> c.c, alarm |-> c.alarm])

TraceSpec == TraceInit /\ [][TraceNext]_tvars

Report == l = Len(Log) + 1 => PrintT(<<"BAD", ToJson(bad)>>)
AllConsumed == TLCGet("stats").diameter - 1 = Len(Log)
=============================================================================
