---------------------------- MODULE RateControl ----------------------------
(* The lossy rate control of the encoder (encoder/pictures.py) as a state machine, C14.       *)
(*                                                                                             *)
(* quantize_to_fit: starting at minimum_qindex, the candidate index is raised one by one       *)
(* until the quantised blocks (each padded to `align` bits, trailing zeros dropped) fit the    *)
(* target.  One action per step of the loop (Reject / Accept).  TLC explores every instance    *)
(* of a small box of coefficient blocks, targets, alignments and minimum indices, checks that   *)
(* the accepted index is the property's Chosen index and that the loop terminates; each        *)
(* accepted instance is printed and replayed on the real quantize_to_fit (G).                  *)
(* The size identities of the two slice layouts are constant-level theorems checked by TLC     *)
(* over all picture_bytes / slice counts / minimum scalers of a box (ASSUME SizeTheorems).     *)
EXTENDS RateControlOps, TLC, Json

CONSTANTS Vals, MVals, Targets, Aligns, QMins, MaxN, MaxPB

SmallVals == {-5, 0, 1, 9}     \* cfg files cannot hold negative literals: Vals <- SmallVals
TinyVals == {-5, 0, 9}
RECURSIVE SeqsUpTo(_, _)
SeqsUpTo(S, n) == IF n = 0 THEN {<<>>} ELSE LET R == SeqsUpTo(S, n - 1) IN R \cup {Append(s, v) : s \in {t \in R : Len(t) = n - 1}, v \in S}
Blocks == {[cs |-> s, ms |-> [i \in 1..Len(s) |-> m]] : s \in SeqsUpTo(Vals, 2), m \in MVals}
Instances == [sets : {<<a, b>> : a \in Blocks, b \in Blocks}, target : Targets, align : Aligns, qmin : QMins]

VARIABLES inst, q, status
vars == <<inst, q, status>>

Init == inst \in Instances /\ q = inst.qmin /\ status = "searching"
FitsNow == Fits(inst.sets, q, inst.align, inst.target)
Reject == status = "searching" /\ ~FitsNow /\ q' = q + 1 /\ UNCHANGED <<inst, status>>
Accept == /\ status = "searching" /\ FitsNow /\ status' = "accepted" /\ UNCHANGED <<inst, q>>
          /\ PrintT(<<"FIT", ToJson([inst |-> inst, q |-> q])>>)
Next == Reject \/ Accept
Spec == Init /\ [][Next]_vars

\* every coefficient of the box quantises to zero at this index, so the search must have stopped
QBound == 24
Terminates == q <= QBound + 3
AcceptedIsChosen == status = "accepted" => Chosen(inst.sets, q, inst.align, inst.target, inst.qmin)
ZeroAlwaysFits == \A t \in Targets, a \in Aligns : Fits(<<[cs |-> <<0, 0>>, ms |-> <<0, 0>>]>>, 0, a, t)

(* ---- size identities (constant level) ---- *)
RECURSIVE LDTotal(_, _, _)
LDTotal(k, pb, n) == IF k = 0 THEN 0 ELSE SliceBytes(k - 1, pb, n) + LDTotal(k - 1, pb, n)
SizeTheorems ==
  \A n \in 1..MaxN :
    /\ \A pb \in n..MaxPB :                                   \* low delay: at least one byte per slice
         /\ LDTotal(n, pb, n) = pb
         /\ \A k \in 0..(n - 1) : SliceBytes(k, pb, n) >= 1 /\ LDBudget(SliceBytes(k, pb, n)) >= 0
    /\ \A pb \in (4 * n)..MaxPB, ms \in 1..3 :                \* high quality: 4 bytes of overhead per slice
         LET s == HQScaler(pb, n, ms) IN
         /\ \A k \in 0..(n - 1) : HQSliceUnits(k, pb, n, s) \in 0..255        \* 8-bit length fields
         /\ pb - HQTotalBytes(pb, n, s) \in 0..(s - 1)                         \* within the scaler
ASSUME SizeTheorems
ASSUME QuantFactor(0) = 4 /\ QuantFactor(1) = 5 /\ QuantFactor(2) = 6 /\ QuantFactor(3) = 7 /\ QuantFactor(4) = 8
       /\ QuantFactor(5) = 10 /\ QuantFactor(40) = 4096 /\ QuantFactor(41) = 4871
ASSUME SignedLen(0) = 1 /\ SignedLen(1) = 4 /\ SignedLen(-2) = 4 /\ SignedLen(3) = 6 /\ SignedLen(-7) = 8
=============================================================================
