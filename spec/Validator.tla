----------------------------- MODULE Validator -----------------------------
(* The stream-structure rules of SMPTE ST 2042-1 as checked by the bitstream validator      *)
(* (vc2_conformance.decoder: parse_sequence / parse_info / sequence_header / picture_header *)
(* / fragment_header / fragment_data and the end-of-sequence checks).  Properties C01, C02, *)
(* C10, C25.                                                                                *)
(*                                                                                          *)
(* One sequence is a history of data units over the alphabet `Units`.  The abstract state   *)
(* mirrors the validator's hidden state; `Viol(u)` is the set of *named* rules the next     *)
(* unit violates (total verdict, named clause).  The machine is structured like the code:   *)
(*   - a wrong next_parse_offset is only detected when the NEXT parse_info is read (`pend`) *)
(*   - the level pattern is an automaton advanced once per data unit (`lvl`)                *)
(*   - fragment bookkeeping is `fragRem` (slices still expected) / `fragRecv`               *)
(*   - picture numbers: only "is there a previous number", its parity and whether it sits   *)
(*     just below 2^32 matter for the rules, so `lastPN` is the class                        *)
(*        NONE | 0 (even, small) | 1 (odd, small) | 2 (= 2^32-2) | 3 (= 2^32-1)              *)
(*     and the driver tracks the concrete 32-bit number.                                     *)
EXTENDS ValidatorOps, TLC

CONSTANTS S,        \* slices per picture in the tiny format (slices_x = S, slices_y = 1)
          MaxLen,   \* bound on the number of data units in a history
          Cfgs      \* configurations carried by the first sequence header:
                    \*   [prof : {"LD","HQ"}, ver : 1..3, pat : {"any","nomix","altld","althq"}, fields : BOOLEAN, sx : {1, S}]
                    \*   sx = slices_x (slices_y = S / sx): S x 1 slices in one row, or 1 x S slices in one column

NONE == -1
Profs == {"LD", "HQ"}
PNFirst == {"a0", "a1", "am2", "am1"}            \* absolute numbers 0, 1, 2^32-2, 2^32-1
PNRel   == {"next", "same", "skip"}              \* previous + 1 (mod 2^32), previous, previous + 2
PNChoices == PNFirst \cup PNRel
NpoPic == {"ok", "zero", "bad"}                  \* true distance / 0 / true distance + 1
NpoAny == {"ok", "zero", "bad", "inside"}        \* "inside": 5, i.e. pointing into this parse_info
Ppo == {"ok", "bad"}                             \* true distance (0 for the first unit) / + 1

Units ==
       [k : {"SH"}, same : BOOLEAN, npo : NpoAny, ppo : Ppo]
  \cup [k : {"PIC", "F0"}, prof : Profs, pn : PNChoices, npo : NpoPic, ppo : Ppo]
  \cup [k : {"FN"}, prof : Profs, cnt : 1..S, off : {"ok", "bad", "alias"}, pnsame : BOOLEAN, npo : NpoPic, ppo : Ppo]
  \cup [k : {"PAD", "AUX"}, npo : {"ok", "zero", "inside"}, ppo : Ppo]      \* npo defines the payload length
  \cup [k : {"EOS"}, npo : {"zero", "ok", "inside"}, ppo : Ppo]            \* "ok" = 13 (non-zero)
  \cup [k : {"BADPFX", "BADCODE"}, npo : {"ok"}, ppo : {"ok"}]

VARIABLES cfg, started, lastPN, np, fragRem, fragRecv, lvl, needVer, pend, verdict, out, taint,
          pre, inp, hist

vars == <<cfg, started, lastPN, np, fragRem, fragRecv, lvl, needVer, pend, verdict, out, taint, pre, inp, hist>>

(* --- data-unit names as the level patterns see them ----------------------------------- *)
Sym(u) == CASE u.k = "SH" -> "sh" [] u.k = "EOS" -> "eos" [] u.k = "PAD" -> "pad" [] u.k = "AUX" -> "aux"
            [] u.k = "PIC" -> (IF u.prof = "LD" THEN "ldp" ELSE "hqp")
            [] u.k \in {"F0", "FN"} -> (IF u.prof = "LD" THEN "ldf" ELSE "hqf")
            [] OTHER -> "none"

IsPicLike(u) == u.k \in {"PIC", "F0", "FN"}
VerNeed(u) == IF u.k \in {"F0", "FN"} THEN 3 ELSE 1          \* (11.2.2) fragments need major_version 3
BaseVer(c) == IF c.prof = "HQ" THEN 2 ELSE 1                  \* (11.2.2) the HQ profile needs 2

(* picture-number class after choice p from class x *)
PNNext(x) == CASE x = 0 -> 1 [] x = 1 -> 0 [] x = 2 -> 3 [] x = 3 -> 0
PNValue(x, p) == CASE p = "a0" -> 0 [] p = "a1" -> 1 [] p = "am2" -> 2 [] p = "am1" -> 3
                   [] p = "next" -> PNNext(x) [] p = "same" -> x [] p = "skip" -> x
PNConsecutive(p) == p = "next"
Parity(x) == x % 2

\* fragment_x/y_offset variants: "ok" = (recv mod sx, recv div sx); "bad" = x + 1; "alias" = (recv, 0), which is
\* the same slice INDEX written with out-of-range coordinates once recv has reached the second row
OffWrong(off, recv, sx) == off = "bad" \/ (off = "alias" /\ recv >= sx)

(* --- the rules: names of the rules unit u violates in the current state ----------------- *)
Viol(u) ==
  LET c == cfg IN
       (IF u.k = "BADPFX" THEN {"R0_parse_info_prefix"} ELSE {})
  \cup (IF u.k = "BADCODE" THEN {"R0_parse_code"} ELSE {})
  \cup (IF ~started /\ u.k # "SH" THEN {"R1_first_is_header"} ELSE {})
  \cup (IF pend = "bad" THEN {"R2_previous_units_next_offset"} ELSE {})
  \cup (IF u.npo = "inside" THEN {"R2_next_offset_inside_parse_info"} ELSE {})
  \cup (IF u.k = "EOS" /\ u.npo # "zero" THEN {"R2_eos_next_offset_zero"} ELSE {})
  \cup (IF u.k \in {"SH", "PAD", "AUX"} /\ u.npo = "zero" THEN {"R2_next_offset_required"} ELSE {})
  \cup (IF u.ppo = "bad" THEN {"R3_previous_offset"} ELSE {})
  \cup (IF u.k = "SH" /\ started /\ ~u.same THEN {"R4_header_identical"} ELSE {})
  \cup (IF u.k = "SH" /\ ~started /\ c.ver < BaseVer(c) THEN {"R5_profile_needs_version"} ELSE {})
  \cup (IF started /\ IsPicLike(u) /\ u.prof # c.prof THEN {"R5_profile_parse_code"} ELSE {})
  \cup (IF started /\ VerNeed(u) > c.ver THEN {"R5_version_parse_code"} ELSE {})
  \cup (IF started /\ Sym(u) # "none" /\ LvlStep(c.pat, lvl, Sym(u)) = DEAD THEN {"R8_level_pattern"} ELSE {})
  \cup (IF started /\ u.k = "PIC" /\ fragRem # 0 THEN {"R7_picture_interleaved"} ELSE {})
  \cup (IF started /\ u.k = "F0" /\ fragRem # 0 THEN {"R7_fragmented_picture_restarted"} ELSE {})
  \cup (IF started /\ u.k \in {"PIC", "F0"} /\ lastPN # NONE /\ ~PNConsecutive(u.pn) THEN {"R6_consecutive"} ELSE {})
  \cup (IF started /\ u.k \in {"PIC", "F0"} /\ c.fields /\ np \in {0, 2}
          /\ Parity(PNValue(lastPN, u.pn)) = 1 THEN {"R6_even_first_field"} ELSE {})
  \cup (IF started /\ u.k = "FN" /\ fragRem = 0 THEN {"R7_no_fragmented_picture_in_progress"} ELSE {})
  \cup (IF started /\ u.k = "FN" /\ fragRem # 0 /\ ~u.pnsame THEN {"R7_number_changed"} ELSE {})
  \cup (IF started /\ u.k = "FN" /\ fragRem # 0 /\ u.cnt > fragRem THEN {"R7_too_many_slices"} ELSE {})
  \cup (IF started /\ u.k = "FN" /\ fragRem # 0 /\ OffWrong(u.off, fragRecv, c.sx) THEN {"R7_contiguous"} ELSE {})
  \cup (IF started /\ u.k = "EOS" /\ fragRem # 0 THEN {"R7_incomplete_at_end"} ELSE {})
  \cup (IF started /\ u.k = "EOS" /\ c.fields /\ np = 1 THEN {"R6_whole_frames"} ELSE {})
  \cup (IF started /\ u.k = "EOS" /\ ~LvlAccepting(c.pat, LvlStep(c.pat, lvl, "eos")) THEN {"R8_level_pattern"} ELSE {})
  \cup (IF started /\ u.k = "EOS" /\ ~(np = 0 /\ c.ver = 3)
          /\ c.ver > Max(needVer, BaseVer(c)) THEN {"R9_version_minimal"} ELSE {})

Init == /\ cfg \in Cfgs /\ started = FALSE /\ lastPN = NONE /\ np = 0 /\ fragRem = 0 /\ fragRecv = 0
        /\ lvl = 0 /\ needVer = 1 /\ pend = "none" /\ verdict = "run" /\ out = 0 /\ taint = ""
        /\ pre = <<>> /\ inp = [k |-> "none"] /\ hist = <<>>

AbsState == <<started, lastPN, np, fragRem, fragRecv, lvl, needVer, pend, taint>>

(* a relative picture number needs a previous one; the first header of a sequence defines cfg *)
Sensible(u) ==
  /\ (u.k \in {"PIC", "F0"} => (u.pn \in PNFirst <=> lastPN = NONE))   \* absolute numbers only for the first picture
  /\ (u.k = "SH" /\ ~started => u.same)
  /\ (u.k = "FN" => started)            \* (a slice fragment before any header is an R1 case already covered by PIC/F0)

(* --- lenient continuation ------------------------------------------------------------------ *)
(* To decide "accepts iff conformant" at the level of WHOLE streams, a history whose first      *)
(* violating unit breaks exactly one rule r is continued as if that unit had been accepted      *)
(* (`taint` = r): the state is updated the way the code would update it had the check for r     *)
(* not fired, and only units that violate nothing (or r again) follow, with correct offsets,    *)
(* up to end_of_sequence.  The completed stream violates rule r and nothing else, so every      *)
(* implementation that lost or weakened r accepts it, and the specification rejects it.         *)
(* Rules after which the code cannot sensibly continue are terminal.                             *)
Completable == {"R0_parse_info_prefix", "R0_parse_code",
                "R2_previous_units_next_offset", "R2_eos_next_offset_zero", "R2_next_offset_required",
                "R3_previous_offset", "R4_header_identical", "R5_profile_needs_version",
                "R5_profile_parse_code", "R5_version_parse_code", "R8_level_pattern",
                "R7_picture_interleaved", "R7_fragmented_picture_restarted", "R6_consecutive",
                "R6_even_first_field", "R7_number_changed", "R7_contiguous", "R7_incomplete_at_end",
                "R6_whole_frames", "R9_version_minimal"}
CleanOffsets(u) == u.ppo = "ok" /\ u.npo = (IF u.k = "EOS" THEN "zero" ELSE "ok")

Feed(u) ==
  /\ verdict = "run" /\ Len(hist) < MaxLen /\ Sensible(u)
  /\ LET v == Viol(u)
         clean == taint = "" /\ v = {}
         lenient == \/ (taint = "" /\ Cardinality(v) = 1 /\ v \subseteq Completable /\ started)
                    \/ (taint # "" /\ v \subseteq {taint} /\ CleanOffsets(u))
         step == LvlStep(cfg.pat, lvl, Sym(u))
     IN
     /\ (taint # "" => lenient)
     /\ IF clean \/ lenient
        THEN /\ taint' = IF clean THEN "" ELSE IF taint # "" THEN taint ELSE CHOOSE r \in v : TRUE
             /\ verdict' = IF u.k = "EOS" THEN (IF clean THEN "accept" ELSE "reject") ELSE "run"
             /\ started' = TRUE
             /\ lvl' = IF Sym(u) = "none" \/ step = DEAD THEN lvl ELSE step
             /\ pend' = u.npo
             /\ needVer' = Max(needVer, VerNeed(u))
             /\ lastPN' = IF u.k \in {"PIC", "F0"} THEN PNValue(lastPN, u.pn) ELSE lastPN
             /\ np' = IF u.k \in {"PIC", "F0"} THEN (IF np = 1 THEN 2 ELSE 1) ELSE np
             /\ fragRem' = IF u.k = "F0" THEN S ELSE IF u.k = "FN" THEN Max(0, fragRem - u.cnt) ELSE fragRem
             /\ fragRecv' = IF u.k = "F0" THEN 0 ELSE IF u.k = "FN" THEN Min(S, fragRecv + u.cnt) ELSE fragRecv
             /\ out' = IF u.k = "PIC" \/ (u.k = "FN" /\ fragRem # 0 /\ fragRem - u.cnt <= 0) THEN out + 1 ELSE out
        ELSE /\ verdict' = "reject"
             /\ UNCHANGED <<started, lastPN, np, fragRem, fragRecv, lvl, needVer, pend, out, taint>>
     /\ hist' = Append(hist, [u |-> u, viol |-> v, verdict |-> verdict', out |-> out', taint |-> taint'])
  /\ UNCHANGED cfg
  /\ pre' = AbsState
  /\ inp' = u

Next == \E u \in Units : Feed(u)
Spec == Init /\ [][Next]_vars

(* --- sanity invariants of the design (TLC) ---------------------------------------------- *)
TypeOK == /\ fragRem \in 0..S /\ fragRecv \in 0..S /\ np \in 0..2 /\ lastPN \in {NONE, 0, 1, 2, 3}
          /\ verdict \in {"run", "accept", "reject"}
FragmentAccounting == (started /\ taint = "") => (fragRem = 0 \/ fragRem + fragRecv = S)
AcceptMeansCleanEnd == verdict = "accept" =>
                         /\ taint = "" /\ fragRem = 0 /\ pend = "zero" /\ LvlAccepting(cfg.pat, lvl)
                         /\ (cfg.fields => np # 1)
                         /\ hist[1].u.k = "SH" /\ hist[Len(hist)].u.k = "EOS"
                         /\ \A i \in 1..Len(hist) : hist[i].viol = {}
\* an accepted sequence's major version is the minimum its features need (with the documented exception)
AcceptMeansMinimalVersion == verdict = "accept" =>
                         \/ (np = 0 /\ cfg.ver = 3)
                         \/ cfg.ver = Max(BaseVer(cfg), IF \E i \in 1..Len(hist) : hist[i].u.k \in {"F0", "FN"} THEN 3 ELSE 1)
\* one picture is output per picture unit and per completed fragmented picture
OutputCount == taint = "" => out = Cardinality({i \in 1..Len(hist) : hist[i].viol = {} /\ hist[i].u.k = "PIC"})
                   + Cardinality({i \in 1..Len(hist) : hist[i].viol = {} /\ hist[i].u.k = "FN"
                                     /\ hist[i].out > (IF i = 1 THEN 0 ELSE hist[i-1].out)})

(* ========================================================================================== *)
(* Declarative twin: conformance of a whole history stated position by position, without the  *)
(* machine state.  TLC checks (invariant MachineMatchesDeclarative) that the incremental       *)
(* machine above and this definition agree on every reachable history.                         *)
(* ========================================================================================== *)
H == [i \in 1..Len(hist) |-> hist[i].u]
PicIdx(h) == {i \in 1..Len(h) : h[i].k \in {"PIC", "F0"}}
PicsBefore(h, i) == Cardinality({j \in PicIdx(h) : j < i})
FirstParity(h) == LET i == CHOOSE j \in PicIdx(h) : \A m \in PicIdx(h) : j <= m IN
                  IF h[i].pn \in {"a1", "am1"} THEN 1 ELSE 0
RECURSIVE SumCnt(_, _, _)
SumCnt(h, lo, hi) == IF lo > hi THEN 0
                     ELSE (IF h[hi].k = "FN" THEN h[hi].cnt ELSE 0) + SumCnt(h, lo, hi - 1)
\* slices of the fragmented picture in progress still missing just before position i
Open(h, i) == LET js == {j \in 1..(i-1) : h[j].k = "F0"} IN
              IF js = {} THEN 0
              ELSE LET j == CHOOSE x \in js : \A y \in js : y <= x IN
                   IF \E m \in (j+1)..(i-1) : h[m].k = "PIC" THEN 0 ELSE Max(0, S - SumCnt(h, j + 1, i - 1))
RECURSIVE LvlRun(_, _, _)
LvlRun(pat, h, n) == IF n = 0 THEN 0
                     ELSE LET q == LvlRun(pat, h, n - 1) IN
                          IF q = DEAD THEN DEAD ELSE LvlStep(pat, q, Sym(h[n]))

PosOK(c, h, i) ==
  LET u == h[i] n == Len(h) IN
  /\ u.k \notin {"BADPFX", "BADCODE"}
  /\ (i = 1 => u.k = "SH")
  /\ (i < n => u.k # "EOS")                                        \* nothing follows end_of_sequence
  /\ u.npo # "inside" /\ (i < n => u.npo # "bad")                  \* next offset: absent (0) or the true distance
  /\ (u.k = "EOS" => u.npo = "zero") /\ (u.k \in {"SH", "PAD", "AUX"} => u.npo # "zero")
  /\ u.ppo = "ok"
  /\ (u.k = "SH" /\ i > 1 => u.same)                               \* repeated headers byte-identical
  /\ (IsPicLike(u) => u.prof = c.prof)                              \* parse code permitted by the profile
  /\ (u.k \in {"F0", "FN"} => c.ver >= 3)                          \* ... and by the major version
  /\ (u.k \in {"PIC", "F0"} /\ PicsBefore(h, i) > 0 => u.pn = "next")               \* consecutive mod 2^32
  /\ (u.k \in {"PIC", "F0"} /\ c.fields /\ PicsBefore(h, i) % 2 = 0
         => (FirstParity(h) + PicsBefore(h, i)) % 2 = 0)                              \* even first field
  /\ (u.k \in {"PIC", "F0"} => Open(h, i) = 0)                     \* no interleaving / restart
  /\ (u.k = "FN" => Open(h, i) # 0 /\ u.pnsame /\ u.cnt <= Open(h, i) /\ ~OffWrong(u.off, S - Open(h, i), c.sx))

PrefixOK(c, h) == /\ \A i \in 1..Len(h) : PosOK(c, h, i)
                  /\ (Len(h) > 0 => c.ver >= BaseVer(c))            \* the profile needs this version
                  /\ (c.pat # "any" => LvlRun(c.pat, h, Len(h)) # DEAD)
EndOK(c, h) == LET n == Len(h) np_ == Cardinality(PicIdx(h)) IN
  /\ n > 0 /\ h[n].k = "EOS"
  /\ Open(h, n) = 0                                                 \* fragmented picture complete
  /\ (c.fields => np_ % 2 = 0)                                      \* whole frames
  /\ LvlAccepting(c.pat, LvlRun(c.pat, h, n))
  /\ ((np_ = 0 /\ c.ver = 3) \/ c.ver = Max(BaseVer(c), IF \E i \in 1..n : h[i].k \in {"F0", "FN"} THEN 3 ELSE 1))
Conformant(c, h) == PrefixOK(c, h) /\ EndOK(c, h)

MachineMatchesDeclarative ==
  taint = "" =>
    /\ (verdict = "run"    => PrefixOK(cfg, H) /\ (Len(H) = 0 \/ H[Len(H)].k # "EOS"))
    /\ (verdict = "accept" => Conformant(cfg, H))
    /\ (verdict = "reject" => ~(PrefixOK(cfg, H) /\ (H[Len(H)].k = "EOS" => EndOK(cfg, H))))

View == <<cfg, pre, inp, started, lastPN, np, fragRem, fragRecv, lvl, needVer, pend, verdict, taint>>
=============================================================================
