------------------------- MODULE ConstraintTableOps -------------------------
(* Pure operators for constraint tables and their CSV form (property C17, sentences 2-4), *)
(* shared by ConstraintTable.tla, ConstraintCsv.tla and ConstraintTrace.tla.               *)
(*                                                                                         *)
(* A table is a sequence of columns ("allowed combinations"); a column is a function from  *)
(* the keys it constrains to value-set denotations [any, s] (ValueSetsOps).                 *)
EXTENDS ValueSetsOps

SeqRange(s) == {s[i] : i \in 1..Len(s)}

(* ---------------------------------------------------------------------------- queries *)
\* a column contains a combination: every chosen key is constrained by it and admits the value
Matches(col, vals) == \A k \in DOMAIN vals : k \in DOMAIN col /\ DenHas(col[k], vals[k])
\* the code's special case: an empty column is a "catch all" rule kept by every filter
CatchAll(col) == DOMAIN col = {}
NoCatchAll(T) == \A i \in 1..Len(T) : ~CatchAll(T[i])

\* filter_constraint_table, as the set of indices of the columns kept
FilterIdx(T, vals) == {i \in 1..Len(T) : Matches(T[i], vals) \/ CatchAll(T[i])}
\* is_allowed_combination
Allowed(T, vals) == FilterIdx(T, vals) # {}
\* allowed_values_for: union over the kept columns of their set for key k (absent = empty)
AllowedValuesFor(T, k, vals) ==
  LET F == {i \in FilterIdx(T, vals) : k \in DOMAIN T[i]} IN
  IF \E i \in F : T[i][k].any THEN AnyDen
  ELSE [any |-> FALSE, s |-> UNION {T[i][k].s : i \in F}]

Extend(vals, k, v) == [x \in (DOMAIN vals) \cup {k} |-> IF x = k THEN v ELSE vals[x]]

(* ------------------------------------------------------------------------- CSV cells *)
(* abstract cell: [t |-> "empty" | "any" | "ditto" | "items", items |-> Seq(item)] with    *)
(* item = <<"v", x, x>> (integer), <<"b", x, x>> (FALSE/TRUE written for 0/1) or          *)
(* <<"r", lo, hi>> (written lo-hi).                                                        *)
ItemAsSet(i) == IF i[1] = "r" THEN <<"r", i[2], i[3]>> ELSE <<"v", i[2], i[2]>>
NormItems(items) == [j \in 1..Len(items) |-> ItemAsSet(items[j])]

\* the set a cell denotes; last = what the cell to its left denoted (empty set for the first)
CellDen(c, last) ==
  CASE c.t = "empty" -> EmptyDen
    [] c.t = "any"   -> AnyDen
    [] c.t = "ditto" -> last
    [] OTHER         -> DenOfItems(EmptyDen, NormItems(c.items))

RECURSIVE RowDens(_, _)
RowDens(cells, last) ==
  IF cells = <<>> THEN <<>>
  ELSE LET d == CellDen(Head(cells), last) IN <<d>> \o RowDens(Tail(cells), d)

\* a data row (key, cells) applied to the table read so far: columns are added as needed,
\* the key is (re)defined in the first Len(cells) columns, other columns are untouched
ApplyRow(tab, key, cells) ==
  LET ds == RowDens(cells, EmptyDen)
      n  == IF Len(cells) > Len(tab) THEN Len(cells) ELSE Len(tab)
      old(i) == IF i <= Len(tab) THEN tab[i] ELSE <<>>
  IN [i \in 1..n |-> IF i <= Len(cells) THEN Extend(old(i), key, ds[i]) ELSE old(i)]

\* reading a sequence of rows [kind, key, cells] / [kind, n]: comment and blank rows are skipped
RECURSIVE ReadRowRecs(_, _)
ReadRowRecs(tab, rows) ==
  IF rows = <<>> THEN tab
  ELSE LET r == Head(rows) IN
       ReadRowRecs(IF r.kind = "data" THEN ApplyRow(tab, r.key, r.cells) ELSE tab, Tail(rows))
=============================================================================
