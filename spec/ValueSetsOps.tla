---------------------------- MODULE ValueSetsOps ----------------------------
(* Pure operators for vc2_conformance.constraint_table.ValueSet / AnyValue (property C17),  *)
(* shared by ValueSets.tla (exhaustive model), ConstraintTable.tla and ConstraintTrace.tla. *)
(*                                                                                          *)
(* Two descriptions of a value set are kept side by side:                                   *)
(*   * the *denotation*: a plain set of integers (or the wildcard) -- this is what the      *)
(*     property talks about ("contains exactly the union of its listed values and           *)
(*     inclusive ranges");                                                                  *)
(*   * the *representation* the code keeps: [any, vals, rngs] with vals the individually  *)
(*     listed values and rngs a set of inclusive <<lo, hi>> pairs, maintained by the      *)
(*     code's merge algorithm (add_value skips values already contained, add_range drops    *)
(*     covered values and fuses overlapping ranges).                                        *)
(* ValueSets.tla has TLC check that the algorithm on representations denotes the union.     *)
EXTENDS Integers, FiniteSets, Sequences

Min(S) == CHOOSE x \in S : \A y \in S : x <= y
Max(S) == CHOOSE x \in S : \A y \in S : x >= y

(* ---------------------------------------------------------------- representation level *)
EmptyRep == [any |-> FALSE, vals |-> {}, rngs |-> {}]
AnyRep   == [any |-> TRUE,  vals |-> {}, rngs |-> {}]

InRange(u, g) == g[1] <= u /\ u <= g[2]

(* ValueSet.__contains__ / AnyValue.__contains__ *)
Has(r, u) == r.any \/ u \in r.vals \/ \E g \in r.rngs : InRange(u, g)

DenoteIn(r, U) == {u \in U : Has(r, u)}

(* ValueSet.add_value: "don't add duplicates" *)
RepAddValue(r, v) == IF r.any \/ Has(r, v) THEN r ELSE [r EXCEPT !.vals = @ \cup {v}]

(* ValueSet.add_range: drop covered single values, fuse with every overlapping range *)
RepAddRange(r, lo, hi) ==
  IF r.any THEN r
  ELSE LET ov  == {g \in r.rngs : lo <= g[2] /\ g[1] <= hi}
           nlo == Min({lo} \cup {g[1] : g \in ov})
           nhi == Max({hi} \cup {g[2] : g \in ov})
       IN [any  |-> FALSE,
           vals |-> {v \in r.vals : ~(lo <= v /\ v <= hi)},
           rngs |-> (r.rngs \ ov) \cup {<<nlo, nhi>>}]

RECURSIVE AddRanges(_, _)
AddRanges(r, G) == IF G = {} THEN r
                   ELSE LET g == CHOOSE x \in G : \A y \in G : x[1] <= y[1]
                        IN AddRanges(RepAddRange(r, g[1], g[2]), G \ {g})

(* ValueSet.__add__: fresh set, all single values of both, then all ranges of both *)
RepUnion(a, b) ==
  IF a.any \/ b.any THEN AnyRep
  ELSE AddRanges([any |-> FALSE, vals |-> a.vals \cup b.vals, rngs |-> {}], a.rngs \cup b.rngs)

(* ValueSet.is_disjoint as coded: single values of either side contained in the other, or an *)
(* end point of a range of either side contained in the other                               *)
RepDisjoint(a, b) ==
  IF a.any /\ b.any THEN FALSE
  ELSE IF b.any THEN a.vals = {} /\ a.rngs = {}
  ELSE IF a.any THEN b.vals = {} /\ b.rngs = {}
  ELSE /\ \A v \in a.vals : ~Has(b, v)
       /\ \A v \in b.vals : ~Has(a, v)
       /\ \A g \in a.rngs : ~Has(b, g[1]) /\ ~Has(b, g[2])
       /\ \A g \in b.rngs : ~Has(a, g[1]) /\ ~Has(a, g[2])

(* representation invariants the merge algorithm maintains (not part of the property) *)
RepCanonical(r) ==
  /\ \A g \in r.rngs : g[1] <= g[2]
  /\ \A g, h \in r.rngs : g # h => (g[2] < h[1] \/ h[2] < g[1])
  /\ \A v \in r.vals : ~\E g \in r.rngs : InRange(v, g)

(* --------------------------------------------------------------------- denotation level *)
(* a denotation is [any |-> BOOLEAN, s |-> set of integers]                                  *)
EmptyDen == [any |-> FALSE, s |-> {}]
AnyDen   == [any |-> TRUE,  s |-> {}]
DenAddValue(d, v)      == IF d.any THEN d ELSE [d EXCEPT !.s = @ \cup {v}]
DenAddRange(d, lo, hi) == IF d.any THEN d ELSE [d EXCEPT !.s = @ \cup (lo..hi)]
DenUnion(a, b)         == IF a.any \/ b.any THEN AnyDen ELSE [any |-> FALSE, s |-> a.s \cup b.s]
DenHas(d, u)           == d.any \/ u \in d.s
DenIn(d, U)            == {u \in U : DenHas(d, u)}
(* the wildcard shares a value with every non-empty set and with itself *)
DenDisjoint(a, b)      == IF a.any /\ b.any THEN FALSE
                          ELSE IF a.any THEN b.s = {}
                          ELSE IF b.any THEN a.s = {}
                          ELSE a.s \cap b.s = {}

(* an item of a constructor / union argument list: <<"v", x, x>> or <<"r", lo, hi>> *)
RECURSIVE DenOfItems(_, _)
DenOfItems(d, items) ==
  IF items = <<>> THEN d
  ELSE LET i == Head(items) IN
       DenOfItems(IF i[1] = "v" THEN DenAddValue(d, i[2]) ELSE DenAddRange(d, i[2], i[3]), Tail(items))

RECURSIVE RepOfItems(_, _)
RepOfItems(r, items) ==
  IF items = <<>> THEN r
  ELSE LET i == Head(items) IN
       RepOfItems(IF i[1] = "v" THEN RepAddValue(r, i[2]) ELSE RepAddRange(r, i[2], i[3]), Tail(items))
=============================================================================
