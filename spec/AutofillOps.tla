---------------------------- MODULE AutofillOps ----------------------------
(* Pure operators of the automatic field filling design (property C07), shared by           *)
(* Autofill.tla (explicit machine, exhaustive) and AutofillTrace.tla (validation of what   *)
(* vc2_conformance.bitstream.vc2_autofill really produced).                                *)
(*                                                                                         *)
(* A *unit* is a record  [f |-> fields, ...]  where `f` maps field names to                *)
(*   [m |-> "exp", i |-> value]   an explicitly supplied value, or                         *)
(*   [m |-> "auto"]               the AUTO sentinel;                                       *)
(* a name outside DOMAIN f is an omitted field.  32-bit quantities (parse offsets, picture *)
(* numbers) are pairs [hi, lo] of 16-bit halves so that the wrap at 2^32 is exact in TLC.  *)
EXTENDS Integers, Sequences, FiniteSets, TLC

(* ---- 32-bit words ---------------------------------------------------------------------- *)
W32(n)  == [hi |-> n \div 65536, lo |-> n % 65536]          \* for 0 <= n < 2^31
Max32   == [hi |-> 65535, lo |-> 65535]                     \* 2^32 - 1
Zero32  == [hi |-> 0, lo |-> 0]
Inc32(w) == IF w.lo < 65535 THEN [hi |-> w.hi, lo |-> w.lo + 1]
            ELSE IF w.hi < 65535 THEN [hi |-> w.hi + 1, lo |-> 0]
            ELSE Zero32                                       \* wraps at 2^32

MaxOf(S) == CHOOSE x \in S : \A y \in S : y <= x

(* ---- documented defaults of omitted fields (user documentation of vc2_fixeddicts, the    *)
(*      table "bitstream-fixeddicts"; AUTO entries are the four auto-capable fields)        *)
AutoFields == {"npo", "ppo", "pn", "ver"}
Default ==
  [ pc |-> 16,                                   \* end_of_sequence
    minor |-> 0, profile |-> 3, level |-> 0,     \* high_quality, unconstrained
    bvf |-> 0, pcm |-> 0,                        \* custom_format, pictures_are_frames
    fs_flag |-> FALSE, fs_w |-> 1, fs_h |-> 1,
    cd_flag |-> FALSE, cd_idx |-> 0,
    sf_flag |-> FALSE, sf_val |-> 0,
    fr_flag |-> FALSE, fr_idx |-> 3, fr_n |-> 25, fr_d |-> 1,
    par_flag |-> FALSE, par_idx |-> 1, par_n |-> 1, par_d |-> 1,
    ca_flag |-> FALSE, ca_w |-> 1, ca_h |-> 1, ca_l |-> 0, ca_t |-> 0,
    sr_flag |-> FALSE, sr_idx |-> 1, sr_lo |-> 0, sr_le |-> 1, sr_co |-> 0, sr_ce |-> 1,
    cs_flag |-> FALSE, cs_idx |-> 3,
    prim_flag |-> FALSE, prim_idx |-> 0,
    mat_flag |-> FALSE, mat_idx |-> 0,
    tf_flag |-> FALSE, tf_idx |-> 0,
    wi |-> 4, depth |-> 0,                       \* haar_with_shift
    ai_flag |-> FALSE, wi_ho |-> 4, at_flag |-> FALSE, depth_ho |-> 0,
    sx |-> 1, sy |-> 1, sb_n |-> 1, sb_d |-> 1, spb |-> 0, sss |-> 1,
    cqm |-> FALSE,
    fdl |-> 0, fsc |-> 0, fxo |-> 0, fyo |-> 0,
    bytes |-> "" ]

ETPFields == {"ai_flag", "wi_ho", "at_flag", "depth_ho"}

IsExp(u, n)  == n \in DOMAIN u.f /\ u.f[n].m = "exp"
IsAuto(u, n) == ~IsExp(u, n)                       \* for AutoFields: omitted or AUTO => computed
Eff(u, n)    == IF IsExp(u, n) THEN u.f[n].i ELSE Default[n]

PC(u) == Eff(u, "pc")
IsSH(u)   == PC(u) = 0
IsEOS(u)  == PC(u) = 16
IsAux(u)  == PC(u) = 32
IsPad(u)  == PC(u) = 48
IsPic(u)  == PC(u) \in {200, 232}
IsFrag(u) == PC(u) \in {204, 236}
IsHQ(u)   == PC(u) \in {232, 236}
HasPN(u)  == IsPic(u) \/ IsFrag(u)
FirstFrag(u) == IsFrag(u) /\ Eff(u, "fsc") = 0
HasTP(u)  == IsPic(u) \/ FirstFrag(u)             \* carries transform parameters

(* ---- picture numbers ------------------------------------------------------------------ *)
Increments(u) == IsPic(u) \/ FirstFrag(u)
PNOf(u, prev) == IF IsExp(u, "pn") THEN u.f["pn"].i
                 ELSE IF Increments(u) THEN Inc32(prev) ELSE prev
RECURSIVE LastPN(_, _)
LastPN(s, n) == IF n = 0 THEN Max32                  \* (0 - 1) mod 2^32: restarts per sequence
                ELSE IF HasPN(s[n]) THEN PNOf(s[n], LastPN(s, n - 1))
                ELSE LastPN(s, n - 1)
ExpectedPN(s, i) == PNOf(s[i], LastPN(s, i - 1))

(* ---- major version (11.2.2), transcribed from the standard ----------------------------- *)
PresetImplications(u) ==
     (IF Eff(u, "profile") = 3 THEN {2} ELSE {})
  \cup (IF Eff(u, "fr_flag") /\ Eff(u, "fr_idx") > 11 THEN {3} ELSE {})
  \cup (IF Eff(u, "sr_flag") /\ Eff(u, "sr_idx") > 4 THEN {3} ELSE {})
  \cup (IF Eff(u, "cs_flag") /\ Eff(u, "cs_idx") > 4 THEN {3} ELSE {})
  \cup (IF Eff(u, "cs_flag") /\ Eff(u, "cs_idx") = 0
        THEN   (IF Eff(u, "prim_flag") /\ Eff(u, "prim_idx") > 3 THEN {3} ELSE {})
          \cup (IF Eff(u, "mat_flag") /\ Eff(u, "mat_idx") > 3 THEN {3} ELSE {})
          \cup (IF Eff(u, "tf_flag") /\ Eff(u, "tf_idx") > 3 THEN {3} ELSE {})
        ELSE {})
WaveletHO(u)  == IF Eff(u, "ai_flag") THEN Eff(u, "wi_ho") ELSE Eff(u, "wi")
DepthHO(u)    == IF Eff(u, "at_flag") THEN Eff(u, "depth_ho") ELSE 0
Asymmetric(u) == DepthHO(u) # 0 \/ WaveletHO(u) # Eff(u, "wi")
Implications(u) ==
  {1} \cup (IF IsFrag(u) THEN {3} ELSE {})
      \cup (IF IsSH(u) THEN PresetImplications(u) ELSE {})
      \cup (IF HasTP(u) /\ Asymmetric(u) THEN {3} ELSE {})
UnitVersion(u) == MaxOf(Implications(u))
MinVersion(s)  == MaxOf({1} \cup {UnitVersion(s[i]) : i \in 1..Len(s)})
ExpectedVer(s, i) == IF IsExp(s[i], "ver") THEN s[i].f["ver"].i ELSE MinVersion(s)

(* the sequence header governing unit i (0 if none) and the version the output announces there *)
Governing(s, i) == IF \E j \in 1..(i-1) : IsSH(s[j])
                   THEN MaxOf({j \in 1..(i-1) : IsSH(s[j])}) ELSE 0
GovVersion(s, i) == IF Governing(s, i) = 0 THEN 0 ELSE ExpectedVer(s, Governing(s, i))
GovAuto(s, i)    == Governing(s, i) # 0 /\ IsAuto(s[Governing(s, i)], "ver")
GivesETP(u)      == \E n \in ETPFields : n \in DOMAIN u.f
(* extended transform parameters supplied by the user are dropped when the version was AUTO and < 3 *)
ETPRemoved(s, i) == HasTP(s[i]) /\ GivesETP(s[i]) /\ GovAuto(s, i) /\ MinVersion(s) < 3

(* ---- parse offsets -------------------------------------------------------------------- *)
\* symbolic form (no byte positions known): used by the exhaustive model
NpoTag(s, i) == IF IsExp(s[i], "npo") THEN "exp" ELSE IF i = Len(s) THEN "zero" ELSE "dist"
PpoTag(s, i) == IF IsExp(s[i], "ppo") THEN "exp" ELSE IF i = 1 THEN "zero" ELSE "dist"

(* ---- can the description be serialised at all?  (premise of C07; a prediction that is   *)
(*      compared and logged, never an alarm)                                                *)
BLen(u) == IF "blen" \in DOMAIN u THEN u.blen ELSE 0
SeqSerialisable(s) ==
  /\ Len(s) >= 1 /\ IsEOS(s[Len(s)])
  /\ \A i \in 1..Len(s) :
       LET u == s[i] IN
       /\ (IsEOS(u) => i = Len(s))
       /\ (HasTP(u) => Governing(s, i) # 0)
       /\ (HasTP(u) /\ GivesETP(u) /\ ~ETPRemoved(s, i) => GovVersion(s, i) >= 3)
       /\ (IsFrag(u) /\ ~FirstFrag(u) =>
             \E j \in 1..(i - 1) : HasTP(s[j]) /\ IsHQ(s[j]) = IsHQ(u))
       /\ ((IsPad(u) \/ IsAux(u)) /\ IsExp(u, "npo") =>
             u.f["npo"].i.hi > 0 \/ u.f["npo"].i.lo >= 13 + BLen(u))
=============================================================================
