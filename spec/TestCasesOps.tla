----------------------------- MODULE TestCasesOps -----------------------------
(* Catalogue of the decoder test cases of vc2_conformance (property C05), transcribed from *)
(* the docstrings of the generators in vc2_conformance/test_cases/decoder/*.py: for every  *)
(* family (generator function) the RELATION between what its test cases must decode to and *)
(* a base, the SOURCE picture sequence they are built from, and which sub-cases exist for   *)
(* which kind of configuration.  Shared by the enumeration spec (TestCases) and the trace   *)
(* spec (TestCasesTrace).                                                                  *)
EXTENDS Integers, Sequences, FiniteSets

(* relation kinds                                                                           *)
(*   SameAsPlain  decodes to exactly the pictures of the plain encoding of the same source  *)
(*   Concat       decodes to plain ++ plain                                                 *)
(*   Numbers      decodes with the documented picture numbers (and is mid-grey)             *)
(*   MidGrey      decodes to exact mid-grey pictures                                        *)
(*   AcceptOnly   only: accepted by the validator with the configured video parameters      *)
Families == {
  "source_parameters_encodings", "repeated_sequence_headers", "padding_data", "slice_padding_data",
  "dangling_bounded_block_data", "interlace_mode_and_pixel_aspect_ratio", "static_gray", "static_ramps",
  "static_noise", "picture_numbers", "signal_range", "real_pictures", "extended_transform_parameters",
  "slice_prefix_bytes", "absent_next_parse_offset", "slice_size_scaler", "lossless_quantization",
  "default_quantization_matrix", "custom_quantization_matrix", "concatenated_sequences" }

(* families that only vary HOW content is encoded (the list in the statement of C05), with  *)
(* the source of the content and how many times the source sequence is repeated             *)
Rel(f) ==
  CASE f = "source_parameters_encodings"   -> [rel |-> "SameAsPlain", src |-> "static_sprite", rep |-> 1, grey |-> FALSE]
    [] f = "repeated_sequence_headers"     -> [rel |-> "SameAsPlain", src |-> "static_sprite", rep |-> 2, grey |-> FALSE]
    [] f = "extended_transform_parameters" -> [rel |-> "SameAsPlain", src |-> "static_sprite", rep |-> 1, grey |-> FALSE]
    [] f = "padding_data"                  -> [rel |-> "SameAsPlain", src |-> "mid_gray", rep |-> 2, grey |-> TRUE]
    [] f = "absent_next_parse_offset"      -> [rel |-> "SameAsPlain", src |-> "mid_gray", rep |-> 2, grey |-> TRUE]
    [] f = "slice_padding_data"            -> [rel |-> "SameAsPlain", src |-> "mid_gray", rep |-> 1, grey |-> TRUE]
    [] f = "slice_prefix_bytes"            -> [rel |-> "SameAsPlain", src |-> "mid_gray", rep |-> 1, grey |-> TRUE]
    [] f = "slice_size_scaler"             -> [rel |-> "SameAsPlain", src |-> "mid_gray", rep |-> 1, grey |-> TRUE]
    [] f = "concatenated_sequences"        -> [rel |-> "Concat", src |-> "mid_gray", rep |-> 1, grey |-> TRUE]
    [] f = "picture_numbers"               -> [rel |-> "Numbers", src |-> "mid_gray", rep |-> 0, grey |-> TRUE]
    [] f = "static_gray"                   -> [rel |-> "MidGrey", src |-> "mid_gray", rep |-> 1, grey |-> TRUE]
    [] OTHER                               -> [rel |-> "AcceptOnly", src |-> "none", rep |-> 0, grey |-> FALSE]

(* picture numbers as little-endian base-2^15 limbs (TLC integers are 32 bit) *)
Limbs(n) == IF n < 32768 THEN <<n>> ELSE <<n % 32768, n \div 32768>>
Max32(k) == <<32768 - 4 + k, 32767, 3>>      \* 2^32 - 4 + k  for k in 0..3
DocumentedNumbers(sub) ==
  CASE sub = "start_at_zero"     -> [i \in 1..8 |-> Limbs(i - 1)]
    [] sub = "non_zero_start"    -> [i \in 1..8 |-> Limbs(999 + i)]
    [] sub = "wrap_around"       -> [i \in 1..8 |-> IF i <= 4 THEN Max32(i - 1) ELSE Limbs(i - 5)]
    [] sub = "odd_first_picture" -> [i \in 1..8 |-> Limbs(6 + i)]
    [] OTHER -> <<>>

(* ---- the abstract configuration ---------------------------------------------------------- *)
(*   cfg = [profile : {"hq","ld"}, lossless, fragments, fields : BOOLEAN,                    *)
(*          asym : BOOLEAN, qm : QmClasses, range : RangeClasses, slice : SliceClasses,    *)
(*          chroma : ChromaFormats]                                                          *)
(* asym       asymmetric transform (dwt_depth_ho > 0 or wavelet_index_ho # wavelet_index)    *)
(* qm         "default"      the default quantisation matrix of the transform is used        *)
(*            "custom"       a custom matrix is configured although a default one exists     *)
(*            "custom_only"  a custom matrix is configured because no default one exists     *)
(*                           (within the instantiated space: pairs of different wavelets     *)
(*                           for which none is defined, hence asymmetric)                    *)
(* range      class of the signal range (11.4.9): one of the presets that exist in every     *)
(*            version, one of the presets added in version 3, or no preset at all            *)
(* slice      "large" = more than 510 luma coefficients per slice: a luma block in which     *)
(*            every coefficient is 1 (4 bits) does not fit 255 bytes, i.e. needs a           *)
(*            slice_size_scaler above 1 (13.5.4); "small" otherwise                          *)
(* chroma     colour difference sampling format (colour difference blocks of a slice are     *)
(*            1, 1/2, 1/4 of the luma block)                                                 *)
QmClasses == {"default", "custom", "custom_only"}
RangeClasses == {"preset_v2", "preset_v3", "custom"}
SliceClasses == {"small", "large"}
ChromaFormats == {"444", "422", "420"}

(* (Table 11.5 / 11.4.9) preset signal ranges <<luma_offset, luma_excursion, color_diff_offset,         *)
(* color_diff_excursion>> by index; indices 5 to 8 were added in version 3 of the standard (11.2.2):   *)
(* a stream that selects one of them must declare major_version 3, and a stream that is version 3 must *)
(* use some version-3 feature.                                                                          *)
SignalRangePresets == << <<0, 255, 128, 255>>, <<16, 219, 128, 224>>, <<64, 876, 512, 896>>,
                          <<256, 3504, 2048, 3584>>, <<0, 1023, 512, 1023>>, <<0, 4095, 2048, 4095>>,
                          <<4096, 56064, 32768, 57344>>, <<0, 65535, 32768, 65535>> >>
PresetMinVersion(i) == IF i >= 5 THEN 3 ELSE 1
\* ranges no preset describes: unequal 16 / 14 bit depths; a 9 bit full range
CustomRanges == { <<0, 65535, 8192, 16383>>, <<0, 511, 256, 511>> }
RangeClassOf(rng) ==
  IF \E i \in 1..8 : SignalRangePresets[i] = rng
  THEN (IF PresetMinVersion(CHOOSE i \in 1..8 : SignalRangePresets[i] = rng) = 3 THEN "preset_v3" ELSE "preset_v2")
  ELSE "custom"
RangesOf(class) ==
  IF class = "custom" THEN CustomRanges
  ELSE {SignalRangePresets[i] : i \in {j \in 1..8 : (PresetMinVersion(j) = 3) <=> (class = "preset_v3")}}

LargeSliceLumaCoeffs == 510        \* 510 coefficients of 4 bits = 255 bytes: the most a length field of scaler 1 holds
SliceClassOf(lumaCoeffsPerSlice) == IF lumaCoeffsPerSlice > LargeSliceLumaCoeffs THEN "large" ELSE "small"
ChromaOf(index) == CASE index = 0 -> "444" [] index = 1 -> "422" [] OTHER -> "420"
QmClassOf(customqm, hasdefault) == IF ~customqm THEN "default" ELSE IF hasdefault THEN "custom" ELSE "custom_only"

(* the lowest major_version that supports everything the configuration uses (11.2.2): the plain        *)
(* encoding of every test case of the configuration declares exactly this version                      *)
MinVersion(cfg) == IF cfg.fragments \/ cfg.asym \/ cfg.range = "preset_v3" THEN 3
                   ELSE IF cfg.profile = "hq" THEN 2 ELSE 1
(* the colour difference blocks of a slice are smaller than its luma block: a slice_size_scaler must   *)
(* be derived from the largest block, not from any one component                                       *)
ComponentsDiffer(cfg) == cfg.chroma # "444"
ScalerDependsOnLumaOnly(cfg) == cfg.slice = "large" /\ ComponentsDiffer(cfg)

BaseCfg == [profile |-> "hq", lossless |-> FALSE, fragments |-> FALSE, fields |-> FALSE,
            asym |-> FALSE, qm |-> "default", range |-> "preset_v2", slice |-> "small", chroma |-> "444"]
Deviations(c) == Cardinality({k \in DOMAIN BaseCfg : c[k] # BaseCfg[k]})

(* sub-cases that a family may produce, given the abstract configuration                    *)
Fillers    == {"all_zeros", "all_ones", "alternating_1s_and_0s", "alternating_0s_and_1s", "dummy_end_of_sequence"}
Components(cfg) == IF cfg.profile = "hq" THEN {"Y", "C1", "C2"} ELSE {"Y", "C"}
Dangles    == {"zero_dangling", "sign_dangling", "stop_and_sign_dangling", "lsb_stop_and_sign_dangling"}

\* named sub-cases as <<part1, part2>> pairs; the driver splits "Y_all_zeros" -> <<"Y","all_zeros">>;
\* families whose sub-case names are open-ended (numbered encodings) are described by Open
Open(f) == f \in {"source_parameters_encodings"}
NoSub(f) == f \in {"repeated_sequence_headers", "static_gray", "static_ramps", "static_noise", "real_pictures",
                   "absent_next_parse_offset", "slice_size_scaler", "lossless_quantization",
                   "default_quantization_matrix", "concatenated_sequences"}
SubCases(cfg, f) ==
  CASE f = "padding_data"       -> {<<s>> : s \in {"empty", "zero", "non_zero", "dummy_end_of_sequence"}}
    [] f = "slice_padding_data" -> {<<c, x>> : c \in Components(cfg), x \in Fillers}
    [] f = "dangling_bounded_block_data" -> {<<d, c>> : d \in Dangles, c \in Components(cfg)}
    [] f = "interlace_mode_and_pixel_aspect_ratio" -> {<<"static_sequence">>, <<"moving_sequence">>}
    [] f = "picture_numbers"    -> {<<"start_at_zero">>, <<"non_zero_start">>, <<"wrap_around">>}
                                   \cup (IF cfg.fields THEN {} ELSE {<<"odd_first_picture">>})
    [] f = "signal_range"       -> {<<"Y">>, <<"C1">>, <<"C2">>}
    [] f = "extended_transform_parameters" -> {<<"asym_transform_index_flag">>, <<"asym_transform_flag">>}
    [] f = "slice_prefix_bytes" -> IF cfg.profile = "hq" THEN {<<"zeros">>, <<"ones">>, <<"end_of_sequence">>} ELSE {}
    [] f = "custom_quantization_matrix" -> {<<"zeros">>, <<"arbitrary">>, <<"default">>}
    [] OTHER -> {}
(* families that the docstrings say are omitted for a kind of configuration *)
Omitted(cfg, f) ==
  \/ f = "slice_prefix_bytes" /\ cfg.profile # "hq"
  \/ f = "slice_size_scaler" /\ cfg.profile # "hq"
  \/ f = "lossless_quantization" /\ ~cfg.lossless
  \* "skipped for streams whose major version is less than 3"
  \/ f = "extended_transform_parameters" /\ MinVersion(cfg) < 3
  \* "only generated when a non default value is specified ... but when a default quantization matrix is defined"
  \/ f = "default_quantization_matrix" /\ cfg.qm # "custom"
(* sub-cases that must be produced whenever the family is (for an unconstrained level) *)
Required(cfg, f) ==
  IF f \in {"padding_data", "slice_padding_data", "picture_numbers", "interlace_mode_and_pixel_aspect_ratio"}
  THEN SubCases(cfg, f) ELSE {}

(* expected number of decoded pictures, 0 = not fixed by the catalogue *)
PicturesPerFrame(cfg) == IF cfg.fields THEN 2 ELSE 1
ExpectedPictures(cfg, f) ==
  CASE Rel(f).rel = "Numbers" -> 8
    [] Rel(f).rel = "Concat"  -> 2 * PicturesPerFrame(cfg)
    [] Rel(f).rel \in {"SameAsPlain", "MidGrey"} -> Rel(f).rep * PicturesPerFrame(cfg)
    [] OTHER -> 0
=============================================================================
