----------------------------- MODULE TestCasesOps -----------------------------
(* Catalogue of the decoder test cases of vc2_conformance (property C05), transcribed from *)
(* the docstrings of the generators in vc2_conformance/test_cases/decoder/*.py: for every  *)
(* family (generator function) the RELATION between what its test cases must decode to and *)
(* a base, the SOURCE picture sequence they are built from, and which sub-cases exist for   *)
(* which kind of configuration.  Shared by the enumeration spec (TestCases) and the trace   *)
(* spec (TestCasesTrace).                                                                  *)
EXTENDS Integers, Sequences, FiniteSets

(* relation kinds                                                                           *)
(*   SameAsPlain  decodes to exactly the pictures of the plain encoding of the same source  *)
(*   Concat       decodes to plain ++ plain                                                 *)
(*   Numbers      decodes with the documented picture numbers (and is mid-grey)             *)
(*   MidGrey      decodes to exact mid-grey pictures                                        *)
(*   AcceptOnly   only: accepted by the validator with the configured video parameters      *)
Families == {
  "source_parameters_encodings", "repeated_sequence_headers", "padding_data", "slice_padding_data",
  "dangling_bounded_block_data", "interlace_mode_and_pixel_aspect_ratio", "static_gray", "static_ramps",
  "static_noise", "picture_numbers", "signal_range", "real_pictures", "extended_transform_parameters",
  "slice_prefix_bytes", "absent_next_parse_offset", "slice_size_scaler", "lossless_quantization",
  "default_quantization_matrix", "custom_quantization_matrix", "concatenated_sequences" }

(* families that only vary HOW content is encoded (the list in the statement of C05), with  *)
(* the source of the content and how many times the source sequence is repeated             *)
Rel(f) ==
  CASE f = "source_parameters_encodings"   -> [rel |-> "SameAsPlain", src |-> "static_sprite", rep |-> 1, grey |-> FALSE]
    [] f = "repeated_sequence_headers"     -> [rel |-> "SameAsPlain", src |-> "static_sprite", rep |-> 2, grey |-> FALSE]
    [] f = "extended_transform_parameters" -> [rel |-> "SameAsPlain", src |-> "static_sprite", rep |-> 1, grey |-> FALSE]
    [] f = "padding_data"                  -> [rel |-> "SameAsPlain", src |-> "mid_gray", rep |-> 2, grey |-> TRUE]
    [] f = "absent_next_parse_offset"      -> [rel |-> "SameAsPlain", src |-> "mid_gray", rep |-> 2, grey |-> TRUE]
    [] f = "slice_padding_data"            -> [rel |-> "SameAsPlain", src |-> "mid_gray", rep |-> 1, grey |-> TRUE]
    [] f = "slice_prefix_bytes"            -> [rel |-> "SameAsPlain", src |-> "mid_gray", rep |-> 1, grey |-> TRUE]
    [] f = "slice_size_scaler"             -> [rel |-> "SameAsPlain", src |-> "mid_gray", rep |-> 1, grey |-> TRUE]
    [] f = "concatenated_sequences"        -> [rel |-> "Concat", src |-> "mid_gray", rep |-> 1, grey |-> TRUE]
    [] f = "picture_numbers"               -> [rel |-> "Numbers", src |-> "mid_gray", rep |-> 0, grey |-> TRUE]
    [] f = "static_gray"                   -> [rel |-> "MidGrey", src |-> "mid_gray", rep |-> 1, grey |-> TRUE]
    [] OTHER                               -> [rel |-> "AcceptOnly", src |-> "none", rep |-> 0, grey |-> FALSE]

(* picture numbers as little-endian base-2^15 limbs (TLC integers are 32 bit) *)
Limbs(n) == IF n < 32768 THEN <<n>> ELSE <<n % 32768, n \div 32768>>
Max32(k) == <<32768 - 4 + k, 32767, 3>>      \* 2^32 - 4 + k  for k in 0..3
DocumentedNumbers(sub) ==
  CASE sub = "start_at_zero"     -> [i \in 1..8 |-> Limbs(i - 1)]
    [] sub = "non_zero_start"    -> [i \in 1..8 |-> Limbs(999 + i)]
    [] sub = "wrap_around"       -> [i \in 1..8 |-> IF i <= 4 THEN Max32(i - 1) ELSE Limbs(i - 5)]
    [] sub = "odd_first_picture" -> [i \in 1..8 |-> Limbs(6 + i)]
    [] OTHER -> <<>>

(* sub-cases that a family may produce, given the abstract configuration                    *)
(*   cfg = [profile : {"hq","ld"}, lossless, fragments, fields : BOOLEAN]                   *)
Fillers    == {"all_zeros", "all_ones", "alternating_1s_and_0s", "alternating_0s_and_1s", "dummy_end_of_sequence"}
Components(cfg) == IF cfg.profile = "hq" THEN {"Y", "C1", "C2"} ELSE {"Y", "C"}
Dangles    == {"zero_dangling", "sign_dangling", "stop_and_sign_dangling", "lsb_stop_and_sign_dangling"}

\* named sub-cases as <<part1, part2>> pairs; the driver splits "Y_all_zeros" -> <<"Y","all_zeros">>;
\* families whose sub-case names are open-ended (numbered encodings) are described by Open
Open(f) == f \in {"source_parameters_encodings"}
NoSub(f) == f \in {"repeated_sequence_headers", "static_gray", "static_ramps", "static_noise", "real_pictures",
                   "absent_next_parse_offset", "slice_size_scaler", "lossless_quantization",
                   "default_quantization_matrix", "concatenated_sequences"}
SubCases(cfg, f) ==
  CASE f = "padding_data"       -> {<<s>> : s \in {"empty", "zero", "non_zero", "dummy_end_of_sequence"}}
    [] f = "slice_padding_data" -> {<<c, x>> : c \in Components(cfg), x \in Fillers}
    [] f = "dangling_bounded_block_data" -> {<<d, c>> : d \in Dangles, c \in Components(cfg)}
    [] f = "interlace_mode_and_pixel_aspect_ratio" -> {<<"static_sequence">>, <<"moving_sequence">>}
    [] f = "picture_numbers"    -> {<<"start_at_zero">>, <<"non_zero_start">>, <<"wrap_around">>}
                                   \cup (IF cfg.fields THEN {} ELSE {<<"odd_first_picture">>})
    [] f = "signal_range"       -> {<<"Y">>, <<"C1">>, <<"C2">>}
    [] f = "extended_transform_parameters" -> {<<"asym_transform_index_flag">>, <<"asym_transform_flag">>}
    [] f = "slice_prefix_bytes" -> IF cfg.profile = "hq" THEN {<<"zeros">>, <<"ones">>, <<"end_of_sequence">>} ELSE {}
    [] f = "custom_quantization_matrix" -> {<<"zeros">>, <<"arbitrary">>, <<"default">>}
    [] OTHER -> {}
(* families that the docstrings say are omitted for a kind of configuration *)
Omitted(cfg, f) ==
  \/ f = "slice_prefix_bytes" /\ cfg.profile # "hq"
  \/ f = "slice_size_scaler" /\ cfg.profile # "hq"
  \/ f = "lossless_quantization" /\ ~cfg.lossless
(* sub-cases that must be produced whenever the family is (for an unconstrained level) *)
Required(cfg, f) ==
  IF f \in {"padding_data", "slice_padding_data", "picture_numbers", "interlace_mode_and_pixel_aspect_ratio"}
  THEN SubCases(cfg, f) ELSE {}

(* expected number of decoded pictures, 0 = not fixed by the catalogue *)
PicturesPerFrame(cfg) == IF cfg.fields THEN 2 ELSE 1
ExpectedPictures(cfg, f) ==
  CASE Rel(f).rel = "Numbers" -> 8
    [] Rel(f).rel = "Concat"  -> 2 * PicturesPerFrame(cfg)
    [] Rel(f).rel \in {"SameAsPlain", "MidGrey"} -> Rel(f).rep * PicturesPerFrame(cfg)
    [] OTHER -> 0
=============================================================================
