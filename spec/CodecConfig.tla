---------------------------- MODULE CodecConfig ----------------------------
(* The configuration space of the encoder as a choice machine (properties C03, C04, C09;  *)
(* also the source of lossy configurations for C14).                                      *)
(*                                                                                        *)
(* One action per dimension of a run: the CodecFeatures fields (profile/lossless mode,    *)
(* both wavelets, both depths, slice counts, fragment size, colour subsampling, coding    *)
(* mode, picture size, signal range, base video format, quantisation matrix,              *)
(* picture_bytes class) and the arguments of make_sequence (number of pictures, picture   *)
(* numbering, minimum_qindex, minimum_slice_size_scaler) and the picture content class.   *)
(* A value may only be chosen if the partial configuration can still be completed to a    *)
(* valid one (CodecOps!Valid, constraint by constraint), so TLC is the constraint-aware   *)
(* enumerator.  Finish computes the predicted abstract outcome of the run.                *)
(*                                                                                        *)
(* Mode = "pairs": Init fixes two "focus" dimensions to every pair of their values; the   *)
(*   other dimensions are filled deterministically (a hash of the focus and a salt picks   *)
(*   among the still-compatible values).  The reachable finished states therefore form a  *)
(*   pairwise covering design of the valid space: every compatible value pair of every    *)
(*   two dimensions occurs in some finished configuration (the driver measures this).     *)
(* Mode = "free": every dimension is chosen non-deterministically among the compatible    *)
(*   values; used with tlc -simulate to draw random valid configurations.                 *)
EXTENDS CodecOps, TLC, Json

CONSTANTS Mode, Salts, MaxDepth

DimOrder == << "mode", "wi", "wiho", "d", "dho", "sx", "sy", "fsc", "cdf", "pcm", "size", "range",
               "base", "qm", "npics", "pn", "pb", "minq", "minscaler", "content", "colour" >>
N == Len(DimOrder)

Dom == [ mode      |-> << "hq_lossless", "hq_lossy", "ld_lossy" >>,
         wi        |-> << 0, 1, 2, 3, 4, 5, 6 >>,
         wiho      |-> << 0, 1, 2, 3, 4, 5, 6 >>,
         d         |-> [i \in 1..(MaxDepth + 1) |-> i - 1],
         dho       |-> [i \in 1..(MaxDepth + 1) |-> i - 1],
         sx        |-> << 1, 2, 3, 4 >>,
         sy        |-> << 1, 2, 3 >>,
         fsc       |-> << 0, 1, 2, 7 >>,
         cdf       |-> << 0, 1, 2 >>,
         pcm       |-> << 0, 1 >>,
         size      |-> [i \in 1..Len(Sizes) |-> i],
         range     |-> [i \in 1..Len(Ranges) |-> i],
         base      |-> << 0, 2, 8, 14, 19 >>,
         qm        |-> << "default", "zeros", "ramp" >>,
         npics     |-> << 1, 2, 3, 4 >>,
         pn        |-> << "auto", "zero", "seven", "wrap2", "wrap1" >>,
         pb        |-> << "min", "minp1", "small", "q0", "scaler", "edge255", "edge256" >>,
         minq      |-> << 0, 3, 20 >>,
         minscaler |-> << 1, 2, 3 >>,
         content   |-> << "random", "zeros", "max", "checker", "mid", "impulse" >>,
         \* colour description on top of the base format's: unchanged / RGB matrix only / PQ transfer function only /
         \* the SD-625 preset triple / HDTV primaries with the RGB matrix (a preset's primaries+transfer, not its matrix)
         colour    |-> << "base", "rgb_matrix", "pq_transfer", "sd625", "hdtv_rgb" >> ]

Default == [dim \in {DimOrder[i] : i \in 1..N} |-> Dom[dim][1]]

VARIABLES stage,    \* index of the next dimension to choose; N+1 = all chosen; N+2 = finished
          cfg,      \* the configuration record (unchosen dimensions hold their first value)
          chosen,   \* names of the dimensions chosen so far
          focus,    \* pairs mode: [i, j, vi, vj, salt]
          outcome   \* predicted abstract outcome of the run (set by Finish)

vars == <<stage, cfg, chosen, focus, outcome>>

(* ---- partial validity: a constraint with support Sup is violated by a partial configuration  *)
(* ---- only if no assignment of the unchosen dimensions of Sup satisfies it.  Only constraints   *)
(* ---- that mention the dimension being chosen need re-evaluation.                                *)
RECURSIVE Completions(_, _)
Completions(c, dims) ==
  IF dims = {} THEN {c}
  ELSE LET dm == CHOOSE x \in dims : TRUE IN
       UNION {Completions([c EXCEPT ![dm] = Dom[dm][k]], dims \ {dm}) : k \in 1..Len(Dom[dm])}
Satisfiable(K(_), Sup, c, S, touched) ==
  IF touched \cap Sup = {} THEN TRUE
  ELSE IF Sup \subseteq S THEN K(c)
  ELSE \E c2 \in Completions(c, Sup \ S) : K(c2)
\* QuantMatrixOK = (qm # default) \/ (wavelet pair has defaults /\ depth pair has defaults): exact partial form
QMPartial(c, S) ==
  ("qm" \in S /\ c.qm = "default") =>
     /\ ({"wi", "wiho"} \subseteq S) => (<<c.wi, c.wiho>> \in DefaultQMWavelets)
     /\ ({"d", "dho"} \subseteq S) => (<<c.d, c.dho>> \in DefaultQMDepths)
     /\ ("d" \in S) => (\E q \in DefaultQMDepths : q[1] = c.d /\ q[2] \in 0..MaxDepth)
     /\ ("dho" \in S) => (\E q \in DefaultQMDepths : q[2] = c.dho /\ q[1] \in 0..MaxDepth)
PartialValid(c, S, touched) ==
  /\ Satisfiable(FormatOK, {"size", "cdf", "pcm"}, c, S, touched)
  /\ Satisfiable(PictureNumbersOK, {"pcm", "npics", "pn"}, c, S, touched)
  /\ Satisfiable(RateOK, {"mode", "minq"}, c, S, touched)
  /\ QMPartial(c, S)

Candidates(dim) ==
  LET ok(k) == PartialValid([cfg EXCEPT ![dim] = Dom[dim][k]], chosen \cup {dim}, {dim}) IN
  {k \in 1..Len(Dom[dim]) : ok(k)}
\* the r-th smallest element (r counted from 0) of a non-empty set of integers
RECURSIVE Nth(_, _)
Nth(S, r) == LET m == CHOOSE x \in S : \A y \in S : x <= y IN IF r = 0 THEN m ELSE Nth(S \ {m}, r - 1)
Hash(k) == (focus.i * 31 + focus.j * 17 + focus.vi * 13 + focus.vj * 7 + focus.salt * 101
            + k * 53 + focus.vi * focus.vj * k + focus.i * focus.j + focus.salt * k * 3) % 9973

NoOutcome == [set |-> FALSE]

Init ==
  /\ stage = 1 /\ outcome = NoOutcome
  /\ IF Mode = "pairs"
     THEN \E i \in 1..N, j \in 1..N, s \in Salts :
            /\ i < j
            /\ \E vi \in 1..Len(Dom[DimOrder[i]]), vj \in 1..Len(Dom[DimOrder[j]]) :
                 /\ focus = [i |-> i, j |-> j, vi |-> vi, vj |-> vj, salt |-> s]
                 /\ cfg = [Default EXCEPT ![DimOrder[i]] = Dom[DimOrder[i]][vi],
                                          ![DimOrder[j]] = Dom[DimOrder[j]][vj]]
                 /\ chosen = {DimOrder[i], DimOrder[j]}
                 /\ PartialValid(cfg, chosen, chosen)
     ELSE /\ focus = [i |-> 0, j |-> 0, vi |-> 0, vj |-> 0, salt |-> 0]
          /\ cfg = Default /\ chosen = {}

Choose(k) ==
  /\ stage = k
  /\ stage' = k + 1
  /\ UNCHANGED <<focus, outcome>>
  /\ LET dim == DimOrder[k] IN
     IF dim \in chosen THEN UNCHANGED <<cfg, chosen>>          \* a focus dimension: already fixed
     ELSE LET cands == Candidates(dim) IN
          /\ cands # {}
          /\ chosen' = chosen \cup {dim}
          /\ IF Mode = "pairs"
             THEN cfg' = [cfg EXCEPT ![dim] = Dom[dim][Nth(cands, Hash(k) % Cardinality(cands))]]
             ELSE \E v \in cands : cfg' = [cfg EXCEPT ![dim] = Dom[dim][v]]

\* one named action per dimension (the guard repeats Choose's so that TLC reports coverage per action)
ChooseMode == stage = 1 /\ Choose(1)
ChooseWavelet == stage = 2 /\ Choose(2)
ChooseWaveletHO == stage = 3 /\ Choose(3)
ChooseDepth == stage = 4 /\ Choose(4)
ChooseDepthHO == stage = 5 /\ Choose(5)
ChooseSlicesX == stage = 6 /\ Choose(6)
ChooseSlicesY == stage = 7 /\ Choose(7)
ChooseFragment == stage = 8 /\ Choose(8)
ChooseSubsampling == stage = 9 /\ Choose(9)
ChooseCodingMode == stage = 10 /\ Choose(10)
ChooseSize == stage = 11 /\ Choose(11)
ChooseRange == stage = 12 /\ Choose(12)
ChooseBase == stage = 13 /\ Choose(13)
ChooseQuantMatrix == stage = 14 /\ Choose(14)
ChooseNumPictures == stage = 15 /\ Choose(15)
ChooseNumbering == stage = 16 /\ Choose(16)
ChoosePictureBytes == stage = 17 /\ Choose(17)
ChooseMinQindex == stage = 18 /\ Choose(18)
ChooseMinScaler == stage = 19 /\ Choose(19)
ChooseContent == stage = 20 /\ Choose(20)
ChooseColour == stage = 21 /\ Choose(21)

Predict(c) ==
  [ set |-> TRUE,
    units |-> ExpectedUnits(c), version |-> CodecVersion(c), numbers |-> ExpectedNumbers(c),
    dims |-> CfgDims(c), ydepth |-> LumaDepth(c), cdepth |-> ChromaDepth(c),
    w |-> W(c), h |-> H(c), range |-> Ranges[c.range],
    picture_bytes |-> PictureBytes(c), allq0 |-> PredictAllQ0(c) ]

Finish ==
  /\ stage = N + 1
  /\ Valid(cfg)
  /\ stage' = N + 2
  /\ outcome' = Predict(cfg)
  /\ PrintT(<<"CFG", ToJson([cfg |-> cfg, outcome |-> Predict(cfg)])>>)
  /\ UNCHANGED <<cfg, chosen, focus>>

Next == \/ ChooseMode \/ ChooseWavelet \/ ChooseWaveletHO \/ ChooseDepth \/ ChooseDepthHO
        \/ ChooseSlicesX \/ ChooseSlicesY \/ ChooseFragment \/ ChooseSubsampling \/ ChooseCodingMode
        \/ ChooseSize \/ ChooseRange \/ ChooseBase \/ ChooseQuantMatrix \/ ChooseNumPictures
        \/ ChooseNumbering \/ ChoosePictureBytes \/ ChooseMinQindex \/ ChooseMinScaler \/ ChooseContent \/ ChooseColour
        \/ Finish

Spec == Init /\ [][Next]_vars

(* ---------------------------------------------------------------- design properties -- *)
Finished == stage = N + 2
\* partial validity is sound: whatever survives all choices is valid, so Finish never blocks
ChoicesLeadToValid == (stage = N + 1) => Valid(cfg)
FinishedValid == Finished => Valid(cfg)

UnitsOf(i) == SelectSeq(outcome.units, LAMBDA u : u.pic = i)
RECURSIVE SumCnt(_)
SumCnt(s) == IF s = <<>> THEN 0 ELSE Head(s).cnt + SumCnt(Tail(s))
OutcomeShape ==
  Finished =>
    LET u == outcome.units IN
    /\ Head(u).k = "SH" /\ u[Len(u)].k = "EOS"
    /\ \A i \in 1..cfg.npics :
         LET ui == UnitsOf(i) IN
         IF cfg.fsc = 0 THEN Len(ui) = 1 /\ ui[1].k = "PIC"
         ELSE /\ ui[1].k = "FRAG" /\ ui[1].cnt = 0
              /\ \A j \in 2..Len(ui) : ui[j].k = "FRAG" /\ ui[j].cnt \in 1..cfg.fsc
              /\ SumCnt(ui) = NumSlices(cfg)
    /\ outcome.version \in 1..3
    /\ (cfg.fsc # 0 \/ cfg.wi # cfg.wiho \/ cfg.dho # 0) => outcome.version = 3
    /\ Len(outcome.numbers) = cfg.npics
    /\ \A i \in 1..(cfg.npics - 1) : outcome.numbers[i + 1] = PNSucc(outcome.numbers[i])
    /\ (cfg.pcm = 1) => (outcome.numbers[1].lo % 2 = 0)
    /\ outcome.dims.yw >= 1 /\ outcome.dims.yh >= 1 /\ outcome.dims.cw >= 1 /\ outcome.dims.ch >= 1
    /\ outcome.ydepth \in 1..16 /\ outcome.cdepth \in 1..16
BudgetAtLeastMinimum ==
  Finished => \/ IsLossless(cfg)
              \/ IsLD(cfg) /\ outcome.picture_bytes >= NumSlices(cfg)
              \/ ~IsLD(cfg) /\ outcome.picture_bytes >= 4 * NumSlices(cfg)

View == IF Finished THEN <<stage, cfg, outcome, {}, 0>> ELSE <<stage, cfg, NoOutcome, chosen, focus>>

ASSUME PrintT(<<"QMKEYS", ToJson(DefaultQMKeys)>>)
=============================================================================
