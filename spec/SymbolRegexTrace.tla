-------------------------- MODULE SymbolRegexTrace --------------------------
(* Validation of call logs recorded from real vc2_conformance.symbol_re.Matcher objects     *)
(* (random patterns and sequences far outside the exhaustive box of SymbolRegex.tla)        *)
(* against the language defined in SymbolRegexOps.tla.                                      *)
(*                                                                                          *)
(* Events:  begin  [tid, ast, alphabet]            Matcher(text of ast) was created         *)
(*          query  [tid, complete, vns]            is_complete(), valid_next_symbols()      *)
(*          match  [tid, x, res]                   match_symbol(x) returned res             *)
(* Every line is judged (total verdicts); after the first alarm of an execution the rest of *)
(* that execution is skipped (the two sides are no longer in the same state) and the fold   *)
(* resynchronises at the next begin.  Each verdict also says whether the                    *)
(* DeviationBidirEpsilon automaton predicts the recorded answer (field dev).                *)
EXTENDS SymbolRegexOps, Json, IOUtils, TLC, TLCExt

Log == ndJsonDeserialize(IOEnv.TRACE_FILE)

VARIABLES l,     \* next log line
          d,     \* design state (derivative) of the current execution
          tab,   \* the code's automaton for the current pattern (Table)
          sU,    \* state set of the symmetric-epsilon automaton
          alpha, \* alphabet of the current execution
          live,  \* FALSE after the first alarm of the current execution
          bad    \* verdict records

tvars == <<l, d, tab, sU, alpha, live, bad>>

RangeOf(s) == {s[i] : i \in 1..Len(s)}

NoTab == Table(Build(Eps, 0))

Verdict(e) ==
  LET cU == EquivT(tab.clU, sU) IN
  IF e.ev = "match"
  THEN LET ok == NonEmpty(Deriv(d, e.x)) IN
       IF e.res = ok THEN [c |-> "ok", dev |-> FALSE]
       ELSE [c |-> IF e.res THEN "AcceptsSymbolNoMatchCanFollow" ELSE "RejectsSymbolOfAMatch",
             dev |-> MAcceptC(tab, cU, e.x) = e.res]
  ELSE LET vns == RangeOf(e.vns)
           nxt == NextSymsD(d, alpha)
           off == {x \in alpha : Offered(vns, x)}
           dv  == /\ MCompleteC(tab, cU) = e.complete
                  /\ MVnsC(tab, cU) = vns IN
       IF e.complete # CompleteD(d)
       THEN [c |-> "IsCompleteWrong", dev |-> dv]
       ELSE IF off # nxt THEN [c |-> "ValidNextSymbolsWrong", dev |-> dv]
       ELSE IF (EndSym \in vns) # CompleteD(d) THEN [c |-> "ValidNextSymbolsEndWrong", dev |-> dv]
       ELSE [c |-> "ok", dev |-> FALSE]

TraceInit == /\ l = 1 /\ d = Eps /\ tab = NoTab /\ sU = {0} /\ alpha = {} /\ live = FALSE /\ bad = <<>>

TraceNext ==
  /\ l <= Len(Log)
  /\ l' = l + 1
  /\ LET e == Log[l] IN
     IF e.ev = "begin"
     THEN /\ d' = e.ast
          /\ tab' = Table(Build(e.ast, 0))
          /\ sU' = {tab'.s}
          /\ alpha' = RangeOf(e.alphabet)
          /\ live' = EndOK(e.ast, TRUE)
          /\ bad' = IF EndOK(e.ast, TRUE) THEN bad
                    ELSE Append(bad, [tid |-> e.tid, line |-> l, clause |-> "OutOfDomain", alarm |-> FALSE, dev |-> FALSE])
     ELSE IF ~live
     THEN UNCHANGED <<d, tab, sU, alpha, live, bad>>
     ELSE LET v == Verdict(e) IN
          /\ UNCHANGED <<tab, alpha>>
          /\ live' = (v.c = "ok")
          /\ bad' = IF v.c = "ok" THEN bad
                    ELSE Append(bad, [tid |-> e.tid, line |-> l, clause |-> v.c, alarm |-> TRUE, dev |-> v.dev])
          /\ IF e.ev = "match" /\ e.res /\ v.c = "ok"
             THEN d' = Deriv(d, e.x) /\ sU' = MNextC(tab, tab.clU, sU, e.x)
             ELSE UNCHANGED <<d, sU>>

TraceSpec == TraceInit /\ [][TraceNext]_tvars

Report == l = Len(Log) + 1 => PrintT(<<"BAD", ToJson(bad)>>)
AllConsumed == TLCGet("stats").diameter - 1 = Len(Log)
=============================================================================
