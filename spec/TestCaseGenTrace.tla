--------------------------- MODULE TestCaseGenTrace ---------------------------
(* Validation of REAL executions of the worker commands (property C24).  One execution     *)
(* (tid) = one run of a set of real worker commands under some schedule (TLC-chosen order,  *)
(* bounded concurrency, all at once, other hash seed, repeated serial run ...):             *)
(*   begin  kind, n (number of commands), par (max. simultaneously running; 0 = unbounded)  *)
(*   start  w            command w launched                                                 *)
(*   op     w k p q r    a system call of command w on the output tree, in the real global  *)
(*                       order (only in runs observed by one strace), with its real result  *)
(*   end    w rc         command w exited with status rc                                    *)
(*   tree   missing, extra, differ : paths whose presence/bytes differ from the tree of the *)
(*          serial reference run; nfiles; paths/dirs = the real tree (for the fs model)     *)
(* Alarm clauses are exactly the statement of C24: every command succeeds (WorkerFailed),   *)
(* and the files are exactly those of the serial run (TreeDiffers).  Everything else the    *)
(* spec predicts (schedule well-formedness, result of every system call according to the   *)
(* TestCaseGenOps file-system semantics, the modelled tree = the real tree) is compared and *)
(* reported as a non-alarm disagreement (rule R1).                                          *)
EXTENDS TestCaseGenOps, Json, IOUtils, TLCExt

Log == ndJsonDeserialize(IOEnv.TRACE_FILE)

VARIABLES l, run, started, ended, fs, opn, bad
tvars == <<l, run, started, ended, fs, opn, bad>>

P(x) == x   \* paths arrive as JSON arrays = TLA+ sequences of strings

(* predicted result of a primitive system call and the file system after it *)
Prim(f, e) ==
  LET p == P(e.p) IN
  CASE e.k = "mkdir" ->
         IF ~IsDir(f, Parent(p)) THEN [fs |-> f, r |-> "ENOENT"]
         ELSE IF Exists(f, p) THEN [fs |-> f, r |-> "EEXIST"]
         ELSE [fs |-> Put(f, p, DirEnt), r |-> "ok"]
    [] e.k = "creat" ->
         IF ~IsDir(f, Parent(p)) THEN [fs |-> f, r |-> "ENOENT"]
         ELSE IF IsDir(f, p) THEN [fs |-> f, r |-> "EISDIR"]
         ELSE IF e.x = 2 /\ Exists(f, p) THEN [fs |-> f, r |-> "EEXIST"]
         ELSE [fs |-> Put(f, p, FileEnt(IF e.x = 0 /\ Exists(f, p) THEN f[p].c ELSE <<>>)), r |-> "ok"]
    [] e.k = "write" ->
         [fs |-> IF IsFile(f, p) THEN Put(f, p, FileEnt(Append(f[p].c, <<e.w, l>>))) ELSE f, r |-> "ok"]
    [] e.k = "close" -> [fs |-> f, r |-> "ok"]
    [] e.k = "openr" ->
         IF ~Exists(f, p) THEN [fs |-> f, r |-> "ENOENT"] ELSE [fs |-> f, r |-> "ok"]
    [] e.k = "listdir" ->
         IF ~Exists(f, p) THEN [fs |-> f, r |-> "ENOENT"] ELSE [fs |-> f, r |-> "ok"]
    [] e.k = "stat" -> [fs |-> f, r |-> IF Exists(f, p) THEN "present" ELSE "absent"]
    [] e.k = "unlink" ->
         IF ~IsFile(f, p) THEN [fs |-> f, r |-> "ENOENT"] ELSE [fs |-> Del(f, p), r |-> "ok"]
    [] e.k = "rmdir" ->
         IF ~(p \in DOMAIN f /\ f[p].d) THEN [fs |-> f, r |-> "ENOENT"]
         ELSE IF Children(f, p) # {} THEN [fs |-> f, r |-> "ENOTEMPTY"]
         ELSE [fs |-> Del(f, p), r |-> "ok"]
    [] e.k = "rename" ->
         IF ~Exists(f, p) \/ ~IsDir(f, Parent(P(e.q))) THEN [fs |-> f, r |-> "ENOENT"]
         ELSE [fs |-> Put(Del(f, p), P(e.q), f[p]), r |-> "ok"]
    [] OTHER -> [fs |-> f, r |-> e.r]

(* resynchronise on the recorded result when the prediction was different *)
Resync(f, e) ==
  LET p == P(e.p) IN
  IF e.k = "mkdir" /\ e.r = "ok" THEN Put(f, p, DirEnt)
  ELSE IF e.k = "creat" /\ e.r = "ok" THEN Put(f, p, FileEnt(<<>>))
  ELSE IF e.k \in {"unlink", "rmdir"} /\ e.r = "ok" /\ p \in DOMAIN f THEN Del(f, p)
  ELSE f

Verdict(c, alarm, e) == [tid |-> e.tid, line |-> l, clause |-> c, alarm |-> alarm]

FilesOf(f) == {p \in DOMAIN f : ~f[p].d}
DirsOf(f)  == {p \in DOMAIN f : f[p].d}

TraceInit == /\ l = 1 /\ run = [kind |-> "none", n |-> 0, par |-> 0]
             /\ started = {} /\ ended = {} /\ fs = EmptyFs /\ opn = 0 /\ bad = <<>>

TraceNext ==
  /\ l <= Len(Log)
  /\ l' = l + 1
  /\ LET e == Log[l] IN
     CASE e.ev = "begin" ->
            /\ run' = [kind |-> e.kind, n |-> e.n, par |-> e.par]
            /\ started' = {} /\ ended' = {} /\ fs' = EmptyFs /\ opn' = 0
            /\ UNCHANGED bad
       [] e.ev = "start" ->
            /\ started' = started \cup {e.w}
            /\ UNCHANGED <<run, ended, fs, opn>>
            /\ bad' = IF e.w \in started THEN Append(bad, Verdict("StartedTwice", FALSE, e))
                      ELSE IF run.par > 0 /\ Cardinality(started \ ended) >= run.par
                           THEN Append(bad, Verdict("ScheduleBound", FALSE, e))
                      ELSE bad
       [] e.ev = "end" ->
            /\ ended' = ended \cup {e.w}
            /\ UNCHANGED <<run, started, fs, opn>>
            /\ bad' = IF e.rc # 0 THEN Append(bad, Verdict("WorkerFailed", TRUE, e))
                      ELSE IF e.w \notin started \/ e.w \in ended THEN Append(bad, Verdict("EndWithoutStart", FALSE, e))
                      ELSE bad
       [] e.ev = "op" ->
            LET pr == Prim(fs, e) IN
            /\ opn' = opn + 1
            /\ UNCHANGED <<run, started, ended>>
            /\ fs' = IF pr.r = e.r THEN pr.fs ELSE Resync(fs, e)
            /\ bad' = IF pr.r # e.r THEN Append(bad, Verdict("FsSemantics", FALSE, e)) ELSE bad
       [] e.ev = "tree" ->
            /\ UNCHANGED <<run, started, ended, fs, opn>>
            /\ bad' = IF e.missing # <<>> \/ e.extra # <<>> \/ e.differ # <<>>
                        THEN Append(bad, Verdict("TreeDiffers", TRUE, e))
                      ELSE IF e.nfiles = 0 THEN Append(bad, Verdict("EmptyTree", FALSE, e))
                      ELSE IF ended # 1..run.n \/ started # 1..run.n THEN Append(bad, Verdict("Incomplete", FALSE, e))
                      ELSE IF opn > 0 /\ (FilesOf(fs) # SeqRange(e.files) \/ DirsOf(fs) # SeqRange(e.dirs))
                        THEN Append(bad, Verdict("FsModelTree", FALSE, e))
                      ELSE bad
       [] OTHER -> UNCHANGED <<run, started, ended, fs, opn>> /\ bad' = Append(bad, Verdict("UnknownEvent", FALSE, e))

TraceSpec == TraceInit /\ [][TraceNext]_tvars

Report == l = Len(Log) + 1 => PrintT(<<"BAD", ToJson(bad)>>)
AllConsumed == TLCGet("stats").diameter - 1 = Len(Log)
=============================================================================
