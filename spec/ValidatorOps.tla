---------------------------- MODULE ValidatorOps ----------------------------
(* Pure operators shared by Validator.tla (exhaustive abstract model) and ValidatorTrace.tla *)
(* (validation of traces recorded from the real validator on arbitrary byte strings).        *)
EXTENDS Integers, Sequences, FiniteSets

DEAD == -9

\* --- intended languages of the level data-unit-ordering patterns, as DFAs ---------------
\*  any   : .*                                                               (level 0)
\*  nomix : sh ( (sh|aux|pad|ldp|hqp)* | (sh|aux|pad|ldf|hqf)* ) eos         (levels 1-7)
\*  altld : (sh ldp)* eos   (levels 64, 65)        althq : (sh hqp)* eos     (level 66)
LvlStep(pat, q, a) ==
  CASE pat = "any" -> q
    [] pat = "nomix" ->
         IF q = 0 THEN (IF a = "sh" THEN 1 ELSE DEAD)
         ELSE IF q = 9 \/ q = DEAD THEN DEAD
         ELSE IF a = "eos" THEN 9
         ELSE IF a \in {"sh", "aux", "pad"} THEN q
         ELSE IF a \in {"ldp", "hqp"} THEN (IF q \in {1, 2} THEN 2 ELSE DEAD)
         ELSE IF a \in {"ldf", "hqf"} THEN (IF q \in {1, 3} THEN 3 ELSE DEAD)
         ELSE DEAD
    [] pat \in {"altld", "althq"} ->
         LET p == IF pat = "altld" THEN "ldp" ELSE "hqp" IN
         IF q = 0 THEN (IF a = "sh" THEN 1 ELSE IF a = "eos" THEN 9 ELSE DEAD)
         ELSE IF q = 1 THEN (IF a = p THEN 0 ELSE DEAD)
         ELSE DEAD
LvlAccepting(pat, q) == pat = "any" \/ q = 9

Max(a, b) == IF a > b THEN a ELSE b
Min(a, b) == IF a < b THEN a ELSE b
=============================================================================
