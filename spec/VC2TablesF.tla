----------------------------- MODULE VC2TablesF -----------------------------
(* PLACEHOLDER.  The real module of this name is GENERATED on every run from the third-party *)
(* package vc2_data_tables (and the level table of the tree under test) by                   *)
(* harness/drivers/c15.py:gen_tables() into a scratch directory and handed to TLC with       *)
(* extra_files=, where it replaces this file.  This copy only exists so that SANY can parse  *)
(* the modules that EXTEND it at setup time; T_Generated = FALSE makes any TLC run that      *)
(* accidentally uses it fail at once (ASSUME T_Generated in SeqHeaderOps / PictureGenOps).   *)
EXTENDS Integers, Sequences
T_Generated == FALSE
T_BaseFormats == <<[frame_width |-> 640, frame_height |-> 480, color_diff_format_index |-> 2,
                    source_sampling |-> 0, top_field_first |-> FALSE, frame_rate_index |-> 1,
                    pixel_aspect_ratio_index |-> 1, clean_width |-> 640, clean_height |-> 480,
                    left_offset |-> 0, top_offset |-> 0, signal_range_index |-> 1, color_spec_index |-> 0]>>
T_FrameRates == <<<<24000, 1001>>>>
T_AspectRatios == <<<<1, 1>>>>
T_SignalRanges == <<<<0, 255, 128, 255>>>>
T_ColorSpecs == <<<<0, 0, 0>>>>
T_LevelColumns == <<>>
T_LevelKeys == {}
=============================================================================
