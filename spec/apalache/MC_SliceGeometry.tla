------------------------- MODULE MC_SliceGeometry -------------------------
(* Symbolic obligations for C13 (Apalache, SMT integers are unbounded): the arithmetic     *)
(* identities behind SliceGeometryOps hold for ALL naturals, not only inside TLC's box.    *)
(* The formulas are repeated here in the typed fragment (no recursion, no 2^k): a symbolic *)
(* `m` stands for any power of two, `S` for any slice count, `dd` for any denominator.     *)
(*                                                                                         *)
(*   apalache-mc check --init=Init --next=Next --inv=Inv --length=1 MC_SliceGeometry.tla   *)
(*                                                                                         *)
(* Init leaves every quantity arbitrary (subject to its typing constraint) and assumes the *)
(* telescoping invariant for an arbitrary slice number i; Next adds slice i.  Inv in state *)
(* 0 gives the one-state identities, Inv in state 1 the inductive step.                    *)
EXTENDS Integers

VARIABLES
  \* @type: Int;
  n,      \* numerator (bytes) / subband extent
  \* @type: Int;
  dd,     \* denominator / slice count
  \* @type: Int;
  i,      \* slice number / slice index
  \* @type: Int;
  acc,    \* sum of slice_bytes(0..i-1)
  \* @type: Int;
  w,      \* picture extent
  \* @type: Int;
  m,      \* transform scale (any positive integer; powers of two are a special case)
  \* @type: Int;
  k       \* per-slice extent when the slice count divides the band

SB(j) == ((j + 1) * n) \div dd - (j * n) \div dd        \* slice_bytes, 13.5.3.2
Lo(j) == (n * j) \div dd                                  \* slice_left / slice_top
Hi(j) == (n * (j + 1)) \div dd                            \* slice_right / slice_bottom
Padded == m * ((w + m - 1) \div m)                        \* 13.2.3

Init == /\ n \in Nat /\ dd \in Nat /\ dd >= 1 /\ i \in Nat
        /\ acc = (i * n) \div dd
        /\ w \in Nat /\ m \in Nat /\ m >= 1 /\ k \in Nat

Next == i' = i + 1 /\ acc' = acc + SB(i) /\ UNCHANGED <<n, dd, w, m, k>>

Telescoping   == acc = (i * n) \div dd                  \* hence sum over 0..N-1 = floor(N*n/dd)
BytesNonNeg   == SB(i) >= 0
StartsAtZero  == (n * 0) \div dd = 0
EndsAtN       == (n * dd) \div dd = n
Contiguous    == Hi(i) = (n * (i + 1)) \div dd /\ Lo(i + 1) = Hi(i)
Monotone      == Lo(i) <= Hi(i)
WithinBand    == i < dd => Hi(i) <= n
EqualWhenDiv  == n = dd * k => Hi(i) - Lo(i) = k          \* flag true => all slices k wide
UnequalWhenNot == (n % dd # 0 /\ i = 0) => (Hi(0) - Lo(0)) * dd # n   \* flag false => first slice is not n/S ...
PaddedGeq     == Padded >= w /\ Padded - w < m /\ Padded % m = 0
Halving       == (2 * m * k) \div m = 2 * ((2 * m * k) \div (2 * m))   \* each level doubles

Inv == /\ Telescoping /\ BytesNonNeg /\ StartsAtZero /\ EndsAtN /\ Contiguous /\ Monotone
       /\ WithinBand /\ EqualWhenDiv /\ UnequalWhenNot /\ PaddedGeq /\ Halving

(* negative control: must be REFUTED (run by the driver to show the obligations are live) *)
WrongSum == acc = ((i + 1) * n) \div dd
=============================================================================
