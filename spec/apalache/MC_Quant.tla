------------------------------- MODULE MC_Quant -------------------------------
(* Symbolic obligations for C12 (Apalache; SMT integers are unbounded).  The base           *)
(* B = 2^(index div 4) is generalised to ANY natural B >= 1 (a superset of the powers of     *)
(* two, so indices far beyond 255 are covered), x to ANY natural (negative coefficients are *)
(* handled by the sign symmetry of Fq/Iq, obligation SignSymmetric).                         *)
(*                                                                                           *)
(*   apalache-mc check --init=Init --next=Next --inv=Inv --length=0 MC_Quant.tla             *)
EXTENDS Integers

VARIABLES
  \* @type: Int;
  b,     \* the base 2^(index div 4), generalised
  \* @type: Int;
  x,     \* magnitude of the coefficient
  \* @type: Int;
  res    \* index mod 4

Q0(B) == 4 * B
Q1(B) == (503829 * B + 52958) \div 105917
Q2(B) == (665857 * B + 58854) \div 117708
Q3(B) == (440253 * B + 32722) \div 65444
F(B, rr) == IF rr = 0 THEN Q0(B) ELSE IF rr = 1 THEN Q1(B) ELSE IF rr = 2 THEN Q2(B) ELSE Q3(B)

(* quant_offset: (F+1) div 2 except index 0 (B = 1, res = 0) -> 1 and index 1 -> 2 *)
Off(B, rr) == IF B = 1 /\ rr = 0 THEN 1 ELSE IF B = 1 /\ rr = 1 THEN 2 ELSE (F(B, rr) + 1) \div 2

FqM(v, B, rr) == (4 * v) \div F(B, rr)                                     \* magnitudes
IqM(qq, B, rr) == IF qq = 0 THEN 0 ELSE (qq * F(B, rr) + Off(B, rr) + 2) \div 4
AbsD(u, v) == IF u >= v THEN u - v ELSE v - u

Init == b \in Nat /\ b >= 1 /\ x \in Nat /\ res \in 0..3
Next == UNCHANGED <<b, x, res>>

(* (a) reconstruction within one quarter-step-unit: 4 |x^ - x| < F *)
Bound == 4 * AbsD(IqM(FqM(x, b, res), b, res), x) < F(b, res)
(* (a') index 0 (B = 1, res = 0) is exactly lossless *)
Lossless0 == (b = 1 /\ res = 0) => IqM(FqM(x, b, res), b, res) = x
(* (b) factors strictly increase within a group of four and across groups (B -> 2B) *)
Monotone == 4 * b < Q1(b) /\ Q1(b) < Q2(b) /\ Q2(b) < Q3(b) /\ Q3(b) < 8 * b
(* (c) inverse_quant(1, .) strictly increases from index 7 upward: index 7 is (B = 2, res = 3),
       indices 8.. are B >= 4.  Within a group and across groups (B -> 2B), for EVERY natural
       B >= 4 (B = 2 and B = 3 do not satisfy the chain: indices 4..6 are not distinct) *)
Iq1(B, rr) == IqM(1, B, rr)
Distinct == /\ Iq1(2, 3) < Iq1(4, 0)
            /\ b >= 4 => /\ Iq1(b, 0) < Iq1(b, 1) /\ Iq1(b, 1) < Iq1(b, 2) /\ Iq1(b, 2) < Iq1(b, 3)
                          /\ Iq1(b, 3) < Iq1(2 * b, 0)
(* (d) the reconstruction of a non-negative magnitude is non-negative and zero only for q = 0:
       with the sign factored out by the code (sign(x) * magnitude) the sign is preserved *)
SignOk == IqM(FqM(x, b, res), b, res) >= 0 /\ (FqM(x, b, res) > 0 => IqM(FqM(x, b, res), b, res) > 0)

Inv == Bound /\ Lossless0 /\ Monotone /\ Distinct /\ SignOk

(* negative control: a bound that is too tight must be REFUTED *)
TooTight == 8 * AbsD(IqM(FqM(x, b, res), b, res), x) < F(b, res)
=============================================================================
