------------------------- MODULE DeserValidatorTables -------------------------
(* PLACEHOLDER.  The real module of this name is GENERATED on every run of C08 from the       *)
(* third-party package vc2_data_tables (QUANTISATION_MATRICES = Annex D of the standard;      *)
(* trusted, not part of the tree under test) by harness/drivers/c08.py:gen_tables() into a   *)
(* scratch directory and handed to TLC with extra_files=, where it replaces this file.       *)
(* This copy only exists so that SANY can parse DeserValidatorTrace at setup time;            *)
(* DVT_Generated = FALSE makes any TLC run that accidentally uses it fail at once.            *)
(*   DVT_DefaultQM : <<wavelet_index, wavelet_index_ho, dwt_depth, dwt_depth_ho>> ->          *)
(*                   sequence of <<level, orientation code, value>> (level, then orientation  *)
(*                   LL/L = 0, H/HL = 1, LH = 2, HH = 3), the layout of the recorded `qm`.    *)
EXTENDS Integers, Sequences, TLC
DVT_Generated == FALSE
DVT_DefaultQM == (<<0, 0, 0, 0>> :> << <<0, 0, 0>> >>)
=============================================================================
